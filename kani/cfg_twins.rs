// Kani twin (thorough tier) for chmux/cfg.rs: appended under cfg(kani) to a scratch copy of the real crate.
// Loop-free, full u32 domain: a complete proof, and a counterexample producer for the Verus obligation of the same name.
use super::*;
#[kani::proof]
fn twin_max_frame_length() {
    let chunk_size: u32 = kani::any();
    kani::assume(chunk_size <= u32::MAX - 16); // the documented panic condition is excluded (checked by Cfg::check)
    let cfg = Cfg { chunk_size, ..Default::default() };
    // room for the largest fixed-size message plus one chunk, and never less than the hello message (26 bytes)
    let want = if 16 + chunk_size as u64 >= 26 { 16 + chunk_size as u64 } else { 26 };
    assert!(cfg.max_frame_length() as u64 == want);
}
