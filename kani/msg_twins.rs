// Kani twins for chmux/msg.rs, compiled into the real crate under cfg(kani) (module chmux::msg::verif_kani).
// Each harness is loop-free over the full domain of its symbolic fields unless marked BOUNDED.
use super::*;

fn le(v: u32) -> [u8; 4] { v.to_le_bytes() }

#[kani::proof]
#[kani::unwind(12)]
fn twin_data_layout() {
    let port: u32 = kani::any();
    let first: bool = kani::any();
    let last: bool = kani::any();
    let v = MultiplexMsg::Data { port, first, last }.to_vec();
    let p = le(port);
    assert!(v.len() == 6);
    assert!(v[0] == 7 && v[1] == p[0] && v[2] == p[1] && v[3] == p[2] && v[4] == p[3]);
    assert!(v[5] == (first as u8) + 2 * (last as u8));
}

#[kani::proof]
#[kani::unwind(12)]
fn twin_port_credits_layout() {
    let port: u32 = kani::any();
    let credits: u32 = kani::any();
    let v = MultiplexMsg::PortCredits { port, credits }.to_vec();
    let p = le(port);
    let c = le(credits);
    assert!(v.len() == 9 && v[0] == 9);
    assert!(v[1] == p[0] && v[2] == p[1] && v[3] == p[2] && v[4] == p[3]);
    assert!(v[5] == c[0] && v[6] == c[1] && v[7] == c[2] && v[8] == c[3]);
}

#[kani::proof]
#[kani::unwind(14)]
fn twin_open_port_layout() {
    let client_port: u32 = kani::any();
    let wait: bool = kani::any();
    let id: Option<u32> = kani::any();
    let v = MultiplexMsg::OpenPort { client_port, wait, id }.to_vec();
    let p = le(client_port);
    assert!(v[0] == 4 && v[1] == p[0] && v[2] == p[1] && v[3] == p[2] && v[4] == p[3]);
    assert!(v[5] == (wait as u8) + 2 * (id.is_some() as u8));
    match id {
        Some(i) => { let b = le(i); assert!(v.len() == 10 && v[6] == b[0] && v[7] == b[1] && v[8] == b[2] && v[9] == b[3]); }
        None => assert!(v.len() == 6),
    }
}

/// BOUNDED (ports <= 2): the zipped ports/ids loop that the Verus unit abstracts (R11 `vwrite_ports_ids`).
#[kani::proof]
#[kani::unwind(24)]
fn twin_port_data_ids_layout_bounded() {
    let port: u32 = kani::any();
    let n: usize = kani::any();
    kani::assume(n <= 2);
    let mut ports = Vec::new();
    let mut ids = Vec::new();
    let a: [u32; 2] = kani::any();
    let b: [u32; 2] = kani::any();
    for i in 0..n { ports.push(a[i]); ids.push(b[i]); }
    let v = MultiplexMsg::PortData { port, first: kani::any(), last: kani::any(), wait: kani::any(), ports, ids: Some(ids) }.to_vec();
    assert!(v.len() == 6 + 8 * n);
    assert!(v[0] == 8 && (v[5] & 8) != 0);
    for i in 0..n {
        let p = le(a[i]);
        let q = le(b[i]);
        let o = 6 + 8 * i;
        assert!(v[o] == p[0] && v[o + 1] == p[1] && v[o + 2] == p[2] && v[o + 3] == p[3]);
        assert!(v[o + 4] == q[0] && v[o + 5] == q[1] && v[o + 6] == q[2] && v[o + 7] == q[3]);
    }
}

/// every message without a variable-length part: code byte, little-endian fields, flag byte (loop-free, full domain).
/// (A decode round trip through `from_slice` was tried and dropped: its error path formats a string, and CBMC did not
/// finish within 25 minutes; Verus decides `MultiplexMsg::read` in unit U5.)
#[kani::proof]
#[kani::unwind(12)]
fn twin_fixed_messages_layout() {
    let a: u32 = kani::any();
    let b: u32 = kani::any();
    let f: bool = kani::any();
    let which: u8 = kani::any();
    kani::assume(which < 10);
    let pa = le(a);
    let pb = le(b);
    let (msg, code, len) = match which {
        0 => (MultiplexMsg::Reset, 1u8, 1usize),
        1 => (MultiplexMsg::Ping, 3, 1),
        2 => (MultiplexMsg::PortOpened { client_port: a, server_port: b }, 5, 9),
        3 => (MultiplexMsg::Rejected { client_port: a, no_ports: f }, 6, 6),
        4 => (MultiplexMsg::SendFinish { port: a }, 10, 5),
        5 => (MultiplexMsg::ReceiveClose { port: a }, 11, 5),
        6 => (MultiplexMsg::ReceiveFinish { port: a }, 12, 5),
        7 => (MultiplexMsg::ClientFinish, 13, 1),
        8 => (MultiplexMsg::ListenerFinish, 14, 1),
        _ => (MultiplexMsg::Goodbye, 15, 1),
    };
    let v = msg.to_vec();
    assert!(v.len() == len && v[0] == code);
    if len >= 5 {
        assert!(v[1] == pa[0] && v[2] == pa[1] && v[3] == pa[2] && v[4] == pa[3]);
    }
    if which == 2 {
        assert!(v[5] == pb[0] && v[6] == pb[1] && v[7] == pb[2] && v[8] == pb[3]);
    }
    if which == 3 {
        assert!(v[5] == f as u8);
    }
}
