// Kani twins for chmux/credit.rs (module chmux::credit::verif_kani): full u32 domain, loop-free.
use super::*;

#[kani::proof]
#[kani::unwind(4)]
fn twin_take_exact() {
    let port: u32 = kani::any();
    let c: u32 = kani::any();
    kani::assume(port >= c);
    let mut a = AssignedCredits::new(port, Weak::new());
    a.take(c);
    assert!(a.available() == port - c);
    assert!(a.is_empty() == (port == c));
    core::mem::forget(a);
}

#[kani::proof]
#[kani::unwind(4)]
fn twin_use_credits_bound() {
    let limit: u32 = kani::any();
    let c1: u32 = kani::any();
    let c2: u32 = kani::any();
    let (monitor, returner) = credit_monitor_pair(limit);
    let r1 = monitor.use_credits::<(), ()>(c1);
    assert!(r1.is_ok() == (c1 <= limit));
    if r1.is_ok() {
        let r2 = monitor.use_credits::<(), ()>(c2);
        // never more than the advertised buffer in use, whatever the peer claims
        assert!(r2.is_ok() == ((c1 as u64) + (c2 as u64) <= limit as u64));
        core::mem::forget(r2);
    }
    core::mem::forget(r1);
    core::mem::forget(returner);
    core::mem::forget(monitor);
}
