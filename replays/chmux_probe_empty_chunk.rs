use bytes::{Buf, Bytes};
use futures::stream::StreamExt;
use futures::future::try_join;
use std::time::Duration;

use crate::loop_transport;
use remoc::{chmux, exec};

/// A message streamed chunk-by-chunk may contain an empty chunk (`ChunkSender::send(Bytes::new())` is legal).
/// The received `DataBuf` must still honour the `bytes::Buf` contract: `chunk()` is empty only if nothing remains --
/// otherwise `copy_to_slice` / `reader()` spin forever and the bytes that were sent cannot be obtained.
#[tokio::test]
async fn probe_empty_chunk_before_data() {
    let cfg = chmux::Cfg { connection_timeout: None, ..Default::default() };
    loop_transport!(0, a_tx, a_rx, b_tx, b_rx);
    let ((a_mux, a_client, _a_server), (b_mux, _b_client, mut b_server)) =
        try_join(chmux::ChMux::new(cfg.clone(), a_tx, a_rx), chmux::ChMux::new(cfg.clone(), b_tx, b_rx)).await.unwrap();
    exec::spawn(async move { let _ = a_mux.run().await; });
    exec::spawn(async move { let _ = b_mux.run().await; });
    let (conn, acc) = tokio::join!(a_client.connect(), b_server.accept());
    let (mut a_sender, _a_receiver) = conn.unwrap();
    let (_b_sender, mut b_receiver) = acc.unwrap().unwrap();

    let cs = a_sender.send_chunks();
    let cs = cs.send(Bytes::new()).await.unwrap();
    let cs = cs.send(Bytes::from_static(b"hello")).await.unwrap();
    cs.finish().await.unwrap();

    let data = tokio::time::timeout(Duration::from_secs(5), b_receiver.recv()).await.unwrap().unwrap().unwrap();
    assert_eq!(data.remaining(), 5);
    assert!(
        !data.chunk().is_empty(),
        "Buf contract broken: chunk() is empty although {} bytes remain (copy_to_slice would never return)",
        data.remaining()
    );
    let mut out = [0u8; 5];
    let mut data = data;
    data.copy_to_slice(&mut out);
    assert_eq!(&out, b"hello");
}
