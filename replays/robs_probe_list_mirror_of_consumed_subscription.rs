// Replay for the repaired defect  property=C13 (also C14)  fix 688948c "mirror of a partly consumed list subscription reports an error"
// (a defect of MY OWN repair 581b635, found by the round that reviewed my newest repairs)
// obligation: U7_list.ListSubscription::mirror_initial/a_mirror_built_from_a_subscription_that_already_delivered_elements_says_so
// How to run: save as remoc/tests/robs/r5_list_done.rs, add `mod r5_list_done;` to remoc/tests/robs/mod.rs,  cargo test --offline -p remoc --test tests r5_list_done
// (the hunter's local test demanded the full contents; like its remote twin it now accepts "refuse with an error OR hold the list")
// Before the fix: list [1,2,3] (+4), the subscription is read by hand up to Done and then mirrored -- locally or after being sent on:
// mirror.done() = Ok(()), is_done() == true, contents [] (581b635^: done() hangs).

//! Review of 581b635: mirror of a list subscription that has already delivered its done event.

use std::time::Duration;

use remoc::{
    exec::time::timeout,
    robs::list::{ListEvent, ListSubscription, ObservableList},
};

use crate::loop_channel;

/// Property C13: a mirror fed by a subscription holds exactly the observed collection's
/// contents once it has processed the events emitted so far and reports completion exactly
/// when the collection was marked done.
///
/// 581b635 makes the mirror of a subscription that has already delivered its done event
/// report done. The sibling flag `complete` is not set in the same situation and the mirror
/// claims to be the finished list while it holds none of its elements.
#[tokio::test]
async fn mirror_of_finished_subscription_local() {
    crate::init();
    let mut obs: ObservableList<u32, remoc::codec::Default> = ObservableList::from(vec![1, 2, 3]);
    let mut sub = obs.subscribe();
    obs.push(4);
    obs.done();

    // Consume the event stream by hand up to and including the done event.
    let mut by_hand = Vec::new();
    loop {
        match sub.recv().await.unwrap() {
            Some(ListEvent::Push(v)) => by_hand.push(v),
            Some(ListEvent::InitialComplete) => (),
            Some(ListEvent::Done) => break,
            None => panic!("event stream ended without done"),
        }
    }
    assert_eq!(by_hand, vec![1, 2, 3, 4]);
    assert!(sub.is_complete());
    assert!(sub.is_done());

    let mut mirror = sub.mirror(100);
    let res = timeout(Duration::from_secs(5), mirror.done()).await.expect("mirror does not report done");
    println!("done() = {res:?}");

    // Either the mirror refuses (error) or it holds the list; it must not report a finished empty list.
    if res.is_ok() {
        let mb = mirror.borrow().await.unwrap();
        println!("mirror: {:?}, complete: {}, done: {}", *mb, mb.is_complete(), mb.is_done());
        assert!(mb.is_done());
        assert!(mb.is_complete(), "mirror is done but has not reached the initial length of the list");
        assert_eq!(*mb, vec![1, 2, 3, 4], "mirror reports done but does not hold the contents of the list");
    }
}

/// The same across a connection: the finished subscription is sent to another endpoint
/// and mirrored there.
#[tokio::test]
async fn mirror_of_finished_subscription_remote() {
    crate::init();
    let ((mut a_tx, _), (_, mut b_rx)) = loop_channel::<ListSubscription<u32>>().await;

    let mut obs: ObservableList<u32, remoc::codec::Default> = ObservableList::from(vec![1, 2, 3]);
    let mut sub = obs.subscribe();
    obs.done();
    while let Some(evt) = sub.recv().await.unwrap() {
        if evt == ListEvent::Done {
            break;
        }
    }
    assert!(sub.is_done());

    if a_tx.send(sub).await.is_err() {
        panic!("sending the subscription failed");
    }
    let sub = b_rx.recv().await.unwrap().unwrap();

    let mut mirror = sub.mirror(100);
    let res = timeout(Duration::from_secs(5), mirror.done()).await.expect("mirror does not report done");
    println!("done() = {res:?}");

    // Either the mirror refuses (error) or it holds the list; it must not report a finished empty list.
    if res.is_ok() {
        let mb = mirror.borrow().await.unwrap();
        println!("mirror: {:?}, complete: {}, done: {}", *mb, mb.is_complete(), mb.is_done());
        assert_eq!(*mb, vec![1, 2, 3], "mirror reports done but does not hold the contents of the list");
    }
}
