// Replay for the repaired defect  property=C11  fix 37fd999 "mpsc SenderSink reports the failure that dropped its queued value"
// obligation: U17_mpsc_loops.SenderSink::poll_flush/a_sink_is_told_the_failure_that_dropped_its_queued_value
// How to run: append the two tests below to remoc/tests/rch/mpsc.rs,  cargo test --offline -p remoc --test tests sink_flush_after
// Before the fix: values are fed into an mpsc SenderSink whose remote receiver does not read; the remote receiver is dropped (test 1) or the
// connection is cut (test 2): sink.flush() returns SendError::Closed(()) ("closed gracefully") while tx.closed_reason() is Dropped / Failed.


/// The values fed into a SenderSink are queued behind a value that is blocked by flow control.
/// Then the remote receiver is dropped. The flush of the sink must report the receiver as dropped,
/// exactly as a send on the underlying sender does, and not as closed gracefully.
#[cfg_attr(not(feature = "js"), tokio::test)]
#[cfg_attr(feature = "js", wasm_bindgen_test)]
async fn sink_flush_after_receiver_dropped_while_queued() {
    crate::init();
    let ((mut a_tx, _), (_, mut b_rx)) = loop_channel::<mpsc::Receiver<Vec<u8>>>().await;

    let (tx, rx) = mpsc::channel(16);
    let mut sink = mpsc::SenderSink::from(tx.clone());

    a_tx.send(rx).await.unwrap();
    let rx = b_rx.recv().await.unwrap().unwrap();

    // The remote receiver does not receive: the forwarding task gets stuck in the
    // middle of the stream and the last values stay in the local queue.
    for i in 0..10u8 {
        tokio::time::timeout(Duration::from_secs(10), sink.feed(vec![i; 300_000]))
            .await
            .expect("feed blocked although queue has space")
            .unwrap();
    }
    sleep(Duration::from_millis(300)).await;
    assert_eq!(tx.closed_reason(), None);

    println!("Dropping remote receiver");
    drop(rx);

    let res = tokio::time::timeout(Duration::from_secs(10), sink.flush()).await.expect("flush hangs");
    println!("flush result: {res:?}");

    tx.closed().await;
    println!("closed reason: {:?}", tx.closed_reason());
    assert_eq!(tx.closed_reason(), Some(ClosedReason::Dropped));

    let send_err = tx.send(vec![1]).await.unwrap_err();
    println!("send error: {send_err}");
    assert_eq!(send_err.closed_reason(), Some(ClosedReason::Dropped));

    let err = res.expect_err("flush succeeded although the queued value was dropped");
    println!("flush error: {err}");
    assert!(!err.is_closed(), "flush reports a graceful close for a dropped receiver: {err:?}");
    assert_eq!(err.closed_reason(), Some(ClosedReason::Dropped));
}

/// Same as above, but the connection fails.
#[cfg_attr(not(feature = "js"), tokio::test)]
#[cfg_attr(feature = "js", wasm_bindgen_test)]
async fn sink_flush_after_conn_failure_while_queued() {
    crate::init();
    let ((mut a_tx, _), (_, mut b_rx), conn) = droppable_loop_channel::<mpsc::Receiver<Vec<u8>>>().await;

    let (tx, rx) = mpsc::channel(16);
    let mut sink = mpsc::SenderSink::from(tx.clone());

    a_tx.send(rx).await.unwrap();
    let _rx = b_rx.recv().await.unwrap().unwrap();

    for i in 0..10u8 {
        tokio::time::timeout(Duration::from_secs(10), sink.feed(vec![i; 300_000]))
            .await
            .expect("feed blocked although queue has space")
            .unwrap();
    }
    sleep(Duration::from_millis(300)).await;
    assert_eq!(tx.closed_reason(), None);

    println!("Dropping connection");
    drop(conn);

    let res = tokio::time::timeout(Duration::from_secs(10), sink.flush()).await.expect("flush hangs");
    println!("flush result: {res:?}");

    tx.closed().await;
    assert_eq!(tx.closed_reason(), Some(ClosedReason::Failed));

    let send_err = tx.send(vec![1]).await.unwrap_err();
    println!("send error: {send_err}");
    assert_eq!(send_err.closed_reason(), Some(ClosedReason::Failed));

    let err = res.expect_err("flush succeeded although the queued value was dropped");
    println!("flush error: {err}");
    assert!(!err.is_closed(), "flush reports a graceful close for a failed connection: {err:?}");
    assert_eq!(err.closed_reason(), Some(ClosedReason::Failed));
}
