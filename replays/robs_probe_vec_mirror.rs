// Replay for two repaired defects  property=C14 / C13
//   fix 337cd8b "the initial contents of a mirrored collection count towards max_size"   (test mirrored_initial_exceeds_max_size)
//   fix 63c9f09 "a mirror does not forward InitialComplete to its own subscribers"       (test chained_subscription_of_incomplete_mirror_over_connection)
// obligations: U7_{vec,vec_deque,hash_map,hash_set}.*Subscription::mirror_initial/initial_contents_count_towards_the_size_limit,
//              U7_*.MirrorTask::mirror_task_step/mirror_task_forwards_every_change_and_never_the_synthetic_initial_complete
// How to run: append the tests below to remoc/tests/robs/vec.rs, then  cargo test --offline -p remoc --test tests robs::vec
// Before the fixes: mirror(5) of a 10-element vector holds 10 elements and reports no error; a subscription taken from a not yet
// complete mirror and sent to a remote endpoint ends with RecvError::Closed (serde: InitialComplete cannot be serialized).

/// C14: if the size limit is exceeded the mirror must report `MaxSizeExceeded`.
/// This must also hold when the limit is already exceeded by the initial contents
/// delivered with a (non-incremental) subscription.
#[cfg_attr(not(feature = "js"), tokio::test)]
#[cfg_attr(feature = "js", wasm_bindgen_test)]
async fn mirrored_initial_exceeds_max_size() {
    let obs: ObservableVec<u32, remoc::codec::Default> = ObservableVec::from((0..10).collect::<Vec<_>>());

    // Incremental subscription as reference: reports the error.
    let mirror_inc = obs.subscribe_incremental(1024).mirror(5);
    let res = tokio::time::timeout(Duration::from_secs(10), async {
        loop {
            match mirror_inc.borrow().await {
                Ok(mb) if mb.is_complete() => break Ok(mb.len()),
                Ok(_) => (),
                Err(err) => break Err(err),
            }
            sleep(Duration::from_millis(20)).await;
        }
    })
    .await
    .unwrap();
    assert!(matches!(res, Err(RecvError::MaxSizeExceeded(5))), "incremental: {res:?}");

    // Snapshot subscription.
    let mirror = obs.subscribe(1024).mirror(5);
    sleep(Duration::from_millis(200)).await;
    match mirror.borrow().await {
        Ok(mb) => panic!("mirror limited to 5 elements holds {} elements without reporting an error", mb.len()),
        Err(RecvError::MaxSizeExceeded(5)) => (),
        Err(other) => panic!("unexpected error {other:?}"),
    };
}


/// C13: a mirror fed by a subscription, locally or across connections, holds exactly the
/// observed contents once it has processed the events emitted so far.
/// Here the subscription is obtained from a mirror (of an incremental subscription that
/// has not yet completed) and sent to a remote endpoint.
#[cfg_attr(not(feature = "js"), tokio::test)]
#[cfg_attr(feature = "js", wasm_bindgen_test)]
async fn chained_subscription_of_incomplete_mirror_over_connection() {
    use remoc::robs::vec::{MirroredVec, VecSubscription};

    async fn wait_done(mirror: &MirroredVec<u32>) -> Result<Vec<u32>, RecvError> {
        tokio::time::timeout(Duration::from_secs(20), async {
            loop {
                let mb = mirror.borrow().await?;
                if mb.is_done() {
                    return Ok(mb.clone());
                }
                drop(mb);
                sleep(Duration::from_millis(10)).await;
            }
        })
        .await
        .expect("mirror did not become done")
    }

    crate::init();
    let ((mut a_tx, _a_rx), (_b_tx, mut b_rx)) = crate::loop_channel::<VecSubscription<u32>>().await;

    let mut obs: ObservableVec<u32, remoc::codec::Default> = ObservableVec::from((0..1000).collect::<Vec<_>>());

    // Control: subscription of a complete mirror sent over the connection.
    let m_snap = obs.subscribe(10000).mirror(100000);
    assert!(m_snap.borrow().await.unwrap().is_complete());
    a_tx.send(m_snap.subscribe(10000).await.unwrap()).await.ok().unwrap();
    let m_snap_remote = b_rx.recv().await.unwrap().unwrap().mirror(100000);

    // Subscription of a mirror that is still receiving its initial contents incrementally.
    let m_inc = obs.subscribe_incremental(10000).mirror(100000);
    let chained = m_inc.subscribe(10000).await.unwrap();
    assert!(!m_inc.borrow().await.unwrap().is_complete(), "test precondition: mirror must still be incomplete");
    a_tx.send(chained).await.ok().unwrap();
    let m_inc_remote = b_rx.recv().await.unwrap().unwrap().mirror(100000);
    // Same, but kept local.
    let m_inc_local = m_inc.subscribe(10000).await.unwrap().mirror(100000);

    sleep(Duration::from_millis(300)).await;
    obs.push(7);
    obs.done();
    let expect = (*obs).clone();

    assert_eq!(wait_done(&m_snap).await.unwrap(), expect);
    assert_eq!(wait_done(&m_snap_remote).await.unwrap(), expect, "control");
    assert_eq!(wait_done(&m_inc).await.unwrap(), expect);
    assert_eq!(wait_done(&m_inc_local).await.unwrap(), expect);

    // The observed vector is still alive and done, no connection failed, nobody lagged.
    match wait_done(&m_inc_remote).await {
        Ok(got) => assert_eq!(got, expect),
        Err(err) => panic!("remote mirror of chained subscription failed with {err:?}"),
    }
}
