// Replay for the repaired defect  property=C10  fix 1477cd2 "only requests of the remote client count against the connect queue length"
// (a defect of MY OWN earlier repair 4c29c61, found by a round-3 hunter)
// obligation: U4_mux.ChMux::handle_received_msg/step_open_port_of_a_client_within_its_queue_is_not_a_protocol_error
// How to run: save as remoc/tests/chmux/hunt_h_open_limit.rs, add `mod hunt_h_open_limit;` to remoc/tests/chmux/mod.rs,
//     cargo test --offline -p remoc --test tests chmux::hunt_h
// Before the fix (on 4c29c61): connect_queue 2 on both sides; A sends three port requests over an existing port (Sender::connect), B keeps
// the three Request objects unanswered (allowed); then A makes ONE Client::connect(): B's multiplexer dies with
// Protocol("remote endpoint sent too many OpenPort requests") -- the bound was checked on the set that also holds PortData requests.

//! Port-open requests: requests sent over an existing port and the connect queue.

use futures::{future::try_join, stream::StreamExt};
use std::time::Duration;
use tokio::time::timeout;

use crate::loop_transport;
use remoc::{
    chmux::{self, PortReq, Received},
    exec,
};

type MuxResult = Result<(), chmux::ChMuxError<futures::channel::mpsc::SendError, std::io::Error>>;

struct Endpoint {
    client: chmux::Client,
    listener: chmux::Listener,
    mux: exec::task::JoinHandle<MuxResult>,
}

async fn connect(a_cfg: chmux::Cfg, b_cfg: chmux::Cfg) -> (Endpoint, Endpoint) {
    loop_transport!(0, a_tx, a_rx, b_tx, b_rx);
    let ((a_mux, a_client, a_listener), (b_mux, b_client, b_listener)) =
        try_join(chmux::ChMux::new(a_cfg, a_tx, a_rx), chmux::ChMux::new(b_cfg, b_tx, b_rx)).await.unwrap();
    let a_mux = exec::spawn(a_mux.run());
    let b_mux = exec::spawn(b_mux.run());
    (
        Endpoint { client: a_client, listener: a_listener, mux: a_mux },
        Endpoint { client: b_client, listener: b_listener, mux: b_mux },
    )
}

fn small_cfg(connect_queue: u16, max_ports: u32) -> chmux::Cfg {
    chmux::Cfg { connect_queue, max_ports, connection_timeout: None, ..Default::default() }
}

/// Requests sent over an existing port are not client requests: they are not limited by the
/// connect queue of the peer (the sender does not take connect credits for them) and the receiver
/// may store them unanswered. A client request made while they are pending must therefore
/// still be resolved (accepted here), instead of taking down the whole connection.
#[tokio::test]
async fn port_requests_over_port_do_not_count_as_client_requests() {
    crate::init();

    let (a, mut b) = connect(small_cfg(2, 100), small_cfg(2, 100)).await;

    // Base port.
    let (conn, acc) = tokio::join!(a.client.connect(), b.listener.accept());
    let (mut a_tx, _a_rx) = conn.unwrap();
    let (_b_tx, mut b_rx) = acc.unwrap().unwrap();

    // A sends three port requests over the port. B receives and keeps them.
    let alloc = a_tx.port_allocator();
    let mut reqs = Vec::new();
    for _ in 0..3 {
        reqs.push(PortReq::new(alloc.allocate().await));
    }
    let connects = a_tx.connect(reqs, true).await.unwrap();
    let stored = match timeout(Duration::from_secs(5), b_rx.recv_any()).await.unwrap().unwrap() {
        Some(Received::Requests(requests)) => requests,
        other => panic!("unexpected: {other:?}"),
    };
    assert_eq!(stored.len(), 3);

    // Now a single client request is made. The connect queue (2) is empty.
    let (conn, acc) = tokio::join!(
        timeout(Duration::from_secs(5), a.client.connect()),
        timeout(Duration::from_secs(5), b.listener.accept())
    );
    if b.mux.is_finished() {
        println!("B mux result: {:?}", b.mux.await);
    }
    let conn = conn.expect("connect timed out");
    let acc = acc.expect("accept timed out");
    assert!(acc.is_ok(), "listener failed: {:?}", acc.err());
    assert!(conn.is_ok(), "client connect failed: {:?}", conn.err());

    // The stored requests are still answerable.
    for (req, connect) in stored.into_iter().zip(connects) {
        let (acc, conn) = tokio::join!(req.accept(), connect);
        acc.unwrap();
        conn.unwrap();
    }

    let _ = a.mux;
    let _ = a.listener;
    let _ = b.client;
}
