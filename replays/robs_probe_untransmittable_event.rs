// Replay for the repaired defect  property=C14 (also C13, C04)  fix 147ef52 "mpsc forwarding stops after a value that could not be transmitted"
// obligation: U17_mpsc_loops.send_impl::data_arm/nothing_queued_behind_a_failed_value_is_transmitted
// How to run: save as remoc/tests/robs/hunt_c.rs, add `mod hunt_c;` to remoc/tests/robs/mod.rs,  cargo test --offline -p remoc --test tests robs::hunt_c
// Before the fix: an ObservableVec<Vec<u8>> with a remote mirror does push([1]), push(<16 MiB + 1 bytes>), push([3]), done() without
// awaiting in between.  The second event cannot be transmitted; send_impl latched the failure but kept draining its queue, so the
// mirror ended with is_done() == true, borrow() == Ok and the contents [[1],[3]].  Same on a plain remote broadcast subscriber.

//! Defect hunter C: observable collections, mirrors and subscriptions across a connection.

use std::time::Duration;

use crate::loop_channel;
use remoc::{
    codec,
    rch::{DEFAULT_MAX_ITEM_SIZE, broadcast},
    robs::vec::{ObservableVec, VecSubscription},
};

/// C14: a mirror never presents contents that differ from the history of the observed
/// collection without saying so.
///
/// One element of the observed vector cannot be transmitted to the remote subscriber
/// (it is larger than the maximum item size of the event channel). The event is dropped
/// for this subscriber. Either the mirror must report an error, or it must hold the
/// contents of the observed vector. It must not report `done` with an element missing.
#[tokio::test]
async fn remote_mirror_is_told_about_untransmittable_event() {
    crate::init();
    let ((mut a_tx, _), (_, mut b_rx)) = loop_channel::<VecSubscription<Vec<u8>>>().await;

    let mut obs: ObservableVec<Vec<u8>, codec::Default> = ObservableVec::new();
    a_tx.send(obs.subscribe(1024)).await.map_err(|err| err.kind).unwrap();
    let sub = b_rx.recv().await.unwrap().unwrap();
    let mut mirror = sub.mirror(1000);

    obs.push(vec![1]);
    obs.push(vec![2; DEFAULT_MAX_ITEM_SIZE + 1]);
    obs.push(vec![3]);
    obs.done();
    let expected: Vec<usize> = obs.iter().map(|v| v.len()).collect();

    let outcome = tokio::time::timeout(Duration::from_secs(120), async {
        loop {
            match mirror.borrow_and_update().await {
                Err(err) => break Err(err),
                Ok(mb) if mb.is_done() => break Ok(mb.iter().map(|v| v.len()).collect::<Vec<_>>()),
                Ok(_) => (),
            }
            mirror.changed().await;
        }
    })
    .await
    .expect("mirror neither became done nor reported an error");

    match outcome {
        Err(err) => println!("mirror reports error: {err}"),
        Ok(lens) => assert_eq!(
            lens, expected,
            "mirror reports done without an error, but its element lengths differ from the observed vector"
        ),
    }
}

/// Same root cause, seen on the event stream itself (C16 / C14): a value that is skipped
/// for a remote broadcast subscriber must be announced to it before any later value.
#[tokio::test]
async fn remote_broadcast_subscriber_is_told_about_skipped_value() {
    crate::init();
    let ((mut a_tx, _), (_, mut b_rx)) =
        loop_channel::<broadcast::Receiver<Vec<u8>, codec::Default, 16, 100>>().await;

    let tx = broadcast::Sender::<Vec<u8>, codec::Default>::new();
    let rx = tx.subscribe_with_max_item_size::<16, 100>(16);
    a_tx.send(rx).await.unwrap();
    let mut rx = b_rx.recv().await.unwrap().unwrap();

    tx.send(vec![1]).unwrap();
    tx.send(vec![2; 200]).unwrap();
    tx.send(vec![3]).unwrap();

    let first = tokio::time::timeout(Duration::from_secs(10), rx.recv()).await.expect("timeout");
    assert_eq!(first.unwrap(), vec![1]);

    // The second value was skipped for this subscriber; this must be announced
    // before the third value is handed out.
    let second = tokio::time::timeout(Duration::from_secs(10), rx.recv()).await.expect("timeout");
    match second {
        Err(err) => println!("gap announced: {err}"),
        Ok(value) => panic!("value of length {} delivered across a gap without any error", value.len()),
    }
}
