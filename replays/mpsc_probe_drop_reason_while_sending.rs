// Replay for the repaired defect  property=C11  fix 8f47189 "mpsc sender reports a dropped receiver as dropped also while it transmits"
// obligation: U17_mpsc_loops.send_impl::data_arm/queued_value_travels_once_and_its_sender_learns_the_outcome (reason announced per error kind)
// How to run: save as remoc/tests/rch/o_d1_mpsc_drop_reason.rs, add `mod o_d1_mpsc_drop_reason;` to remoc/tests/rch/mod.rs,  cargo test --offline -p remoc --test tests o_d1
// Before the fix: the mpsc receiver lives on the remote endpoint and does not receive; the local sender sends 200 kB values until flow
// control blocks the forwarding task inside base::Sender::send; the remote receiver is dropped (connection stays up): tx.closed()
// resolves but tx.closed_reason() == Some(Failed) instead of Some(Dropped) (with an idle sender: Dropped).

//! A remote mpsc receiver that is dropped while the sender is busy transmitting
//! must be reported as dropped, not as a failed connection.

use std::time::Duration;
use tokio::time::timeout;

use crate::loop_channel;
use remoc::rch::{ClosedReason, mpsc};

#[tokio::test]
async fn receiver_dropped_while_sender_transmits_is_reported_as_dropped() {
    crate::init();
    let ((mut a_tx, _), (_, mut b_rx)) = loop_channel::<mpsc::Receiver<Vec<u8>>>().await;

    let (tx, rx) = mpsc::channel(1);
    a_tx.send(rx).await.unwrap();
    let rx = b_rx.recv().await.unwrap().unwrap();

    // The remote receiver does not receive. Values are sent until the queues and the
    // receive buffer of the port (512 kB) are full, i.e. the transmission of a value waits
    // for flow control credits.
    let item = vec![1u8; 200_000];
    let mut sent = 0;
    loop {
        match timeout(Duration::from_millis(500), tx.send(item.clone())).await {
            Ok(Ok(_)) => sent += 1,
            Ok(Err(err)) => panic!("send failed while receiver is alive: {err}"),
            Err(_) => break,
        }
        assert!(sent < 100, "flow control never blocked the sender");
    }
    println!("sent {sent} values before the sender was blocked");
    assert_eq!(tx.closed_reason(), None);

    // The connection stays up, the receiver is dropped.
    drop(rx);

    timeout(Duration::from_secs(10), tx.closed()).await.expect("sender did not notice the dropped receiver");
    assert_eq!(tx.closed_reason(), Some(ClosedReason::Dropped), "receiver was dropped, connection is intact");

    match tx.send(item).await {
        Ok(_) => panic!("send succeeded after drop"),
        Err(err) => assert_eq!(err.closed_reason(), Some(ClosedReason::Dropped)),
    }
}

/// Control: the same with an idle sender is classified correctly.
#[tokio::test]
async fn receiver_dropped_while_sender_idle_is_reported_as_dropped() {
    crate::init();
    let ((mut a_tx, _), (_, mut b_rx)) = loop_channel::<mpsc::Receiver<Vec<u8>>>().await;

    let (tx, rx) = mpsc::channel(1);
    a_tx.send(rx).await.unwrap();
    let rx = b_rx.recv().await.unwrap().unwrap();

    tx.send(vec![1u8; 1000]).await.unwrap();
    tokio::time::sleep(Duration::from_millis(200)).await;
    drop(rx);

    timeout(Duration::from_secs(10), tx.closed()).await.expect("sender did not notice the dropped receiver");
    assert_eq!(tx.closed_reason(), Some(ClosedReason::Dropped));
}
