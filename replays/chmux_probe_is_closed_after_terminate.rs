// Replay for the repaired defect  property=C11  fix b853a8c "chmux Sender::is_closed stays true after the multiplexer has terminated"
// obligation: U2_sender.Sender::is_closed/a_close_the_sender_was_told_of_stays_reported_after_the_multiplexer_is_gone
// How to run: save as remoc/tests/chmux/o_d2_is_closed_latch.rs, add `mod o_d2_is_closed_latch;` to remoc/tests/chmux/mod.rs,  cargo test --offline -p remoc --test tests o_d2
// Before the fix: the remote receiver is closed, is_closed() == true; the connection is terminated; is_closed() == false again
// (Weak<AtomicBool> whose only strong owner was the multiplexer's port table) while closed() resolves.

//! `Sender::is_closed` is documented as "True, once the remote endpoint has closed its receiver".
//! Once the closure has been observed it must stay observable.

use futures::{future::try_join, stream::StreamExt};
use std::time::Duration;
use tokio::time::timeout;

use crate::loop_transport;
use remoc::{chmux, exec};

#[tokio::test]
async fn is_closed_stays_true_after_multiplexer_terminated() {
    crate::init();

    loop_transport!(0, a_tx, a_rx, b_tx, b_rx);
    let ((a_mux, a_client, _a_server), (b_mux, _b_client, mut b_server)) =
        try_join(chmux::ChMux::new(Default::default(), a_tx, a_rx), chmux::ChMux::new(Default::default(), b_tx, b_rx))
            .await
            .unwrap();
    let a_done = exec::spawn(a_mux.run());
    let b_done = exec::spawn(b_mux.run());

    let (a_conn, b_conn) = tokio::join!(a_client.connect(), b_server.accept());
    let (mut a_sender, _a_receiver) = a_conn.unwrap();
    let (_b_sender, mut b_receiver) = b_conn.unwrap().unwrap();

    assert!(!a_sender.is_closed());

    // The remote endpoint closes its receiver.
    b_receiver.close().await;
    timeout(Duration::from_secs(5), a_sender.closed()).await.unwrap();
    assert!(a_sender.is_closed(), "remote receiver was closed");
    assert!(matches!(a_sender.send("x".into()).await, Err(chmux::SendError::Closed { gracefully: true })));

    // Afterwards the connection is terminated.
    a_client.terminate();
    let _ = timeout(Duration::from_secs(5), a_done).await.unwrap();
    let _ = timeout(Duration::from_secs(5), b_done).await.unwrap();

    // The remote endpoint has closed its receiver, nothing can undo that.
    timeout(Duration::from_secs(5), a_sender.closed()).await.unwrap();
    assert!(a_sender.is_closed(), "is_closed() was true and became false again");
}
