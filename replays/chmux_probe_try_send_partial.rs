// Replay for the OPEN known finding  property=C03  obligation U2_sender.Sender::try_send/try_send_that_reports_full_has_queued_nothing
// How to run: save as remoc/tests/chmux/tiny_d1.rs, add `mod tiny_d1;` to remoc/tests/chmux/mod.rs,  cargo test --offline -p remoc --test tests tiny_d1
// Observed on the unchanged tree: chunk_size 4, receive_buffer 64, shared_send_queue 2: 50 retries of try_send(12 bytes) all return Full,
// put 100 Data frames on the wire and deliver nothing; with the default Cfg a 300 kB message (below the 512 kB receive buffer the doc
// names as the limit) is never sent either, each retry emitting 256 kB of abandoned chunks.  try_send takes the credits for the whole
// message and then pushes the chunks one at a time into the shared event queue; when that fills mid-message it returns Full.

// ===== file: remoc/tests/chmux/tiny_d1.rs =====
//! try_send of a message of several chunks with a short shared send queue.

use bytes::Bytes;
use futures::{SinkExt, StreamExt, future::try_join};
use std::{
    sync::{
        Arc,
        atomic::{AtomicBool, AtomicUsize, Ordering},
    },
    time::Duration,
};

use remoc::{
    chmux::{self, PortsExhausted},
    exec,
};

fn tiny_cfg() -> chmux::Cfg {
    chmux::Cfg {
        connection_timeout: None,
        max_ports: 20,
        ports_exhausted: PortsExhausted::Wait(None),
        max_data_size: 1_000_000,
        max_received_ports: 100,
        chunk_size: 4,
        receive_buffer: 64,
        shared_send_queue: 2,
        transport_send_queue: 1,
        transport_receive_queue: 1,
        connect_queue: 1,
        ..Default::default()
    }
}

/// try_send of a message that fits into the receive buffer of the remote endpoint
/// must either queue the whole message or nothing, and retrying it as told by
/// `TrySendError::Full` must get it through once the dispatcher has drained the queue.
#[tokio::test]
async fn try_send_retry_makes_progress() {
    crate::init();

    // Transport with a relay that counts the data frames from A to B.
    let (a_tx, mut relay_rx) = futures::channel::mpsc::channel::<Bytes>(0);
    let (mut relay_tx, b_rx) = futures::channel::mpsc::channel::<Bytes>(0);
    let (b_tx, a_rx) = futures::channel::mpsc::channel::<Bytes>(0);
    let a_rx = a_rx.map(Ok::<_, std::io::Error>);
    let b_rx = b_rx.map(Ok::<_, std::io::Error>);

    let data_frames = Arc::new(AtomicUsize::new(0));
    let data_frames_relay = data_frames.clone();
    exec::spawn(async move {
        while let Some(frame) = relay_rx.next().await {
            if frame.first() == Some(&7) {
                data_frames_relay.fetch_add(1, Ordering::SeqCst);
            }
            if relay_tx.send(frame).await.is_err() {
                break;
            }
        }
    });

    let ((a_mux, a_client, _a_listener), (b_mux, _b_client, mut b_listener)) =
        try_join(chmux::ChMux::new(tiny_cfg(), a_tx, a_rx), chmux::ChMux::new(tiny_cfg(), b_tx, b_rx))
            .await
            .unwrap();
    exec::spawn(a_mux.run());
    exec::spawn(b_mux.run());

    let (conn, acc) = tokio::join!(a_client.connect(), b_listener.accept());
    let (mut tx, _a_rx) = conn.unwrap();
    let (_b_tx, mut rx) = acc.unwrap().unwrap();

    // Receiver consumes everything it gets.
    let received = Arc::new(AtomicBool::new(false));
    let received_task = received.clone();
    exec::spawn(async move {
        while let Ok(Some(msg)) = rx.recv().await {
            let msg: Bytes = msg.into();
            assert_eq!(&msg[..], b"0123456789ab");
            received_task.store(true, Ordering::SeqCst);
        }
    });

    // 12 bytes = 3 chunks of 4 bytes, well below the receive buffer of 64 bytes.
    let msg = Bytes::from_static(b"0123456789ab");
    let mut sent = false;
    for _ in 0..50 {
        match tx.try_send(&msg) {
            Ok(()) => {
                sent = true;
                break;
            }
            Err(chmux::TrySendError::Full) => tokio::time::sleep(Duration::from_millis(20)).await,
            Err(err) => panic!("try_send failed: {err}"),
        }
    }
    tokio::time::sleep(Duration::from_millis(100)).await;

    let frames = data_frames.load(Ordering::SeqCst);
    println!("sent={sent} received={} data frames on the wire={frames}", received.load(Ordering::SeqCst));
    assert!(
        sent && received.load(Ordering::SeqCst),
        "try_send never got the message through, but put {frames} data frames on the wire"
    );
}

/// The same with the default configuration: a message of 300 kB fits into the receive buffer
/// of 512 kB, which is the documented limit of try_send, but needs 19 chunks of 16 kB while
/// the shared send queue holds 16.
#[tokio::test]
async fn try_send_default_cfg_within_receive_buffer() {
    crate::init();

    let cfg = chmux::Cfg { connection_timeout: None, ..Default::default() };
    let (a_tx, b_rx) = futures::channel::mpsc::channel::<Bytes>(0);
    let (b_tx, a_rx) = futures::channel::mpsc::channel::<Bytes>(0);
    let a_rx = a_rx.map(Ok::<_, std::io::Error>);
    let b_rx = b_rx.map(Ok::<_, std::io::Error>);
    let ((a_mux, a_client, _a_listener), (b_mux, _b_client, mut b_listener)) =
        try_join(chmux::ChMux::new(cfg.clone(), a_tx, a_rx), chmux::ChMux::new(cfg, b_tx, b_rx)).await.unwrap();
    exec::spawn(a_mux.run());
    exec::spawn(b_mux.run());

    let (conn, acc) = tokio::join!(a_client.connect(), b_listener.accept());
    let (mut tx, _a_rx) = conn.unwrap();
    let (_b_tx, mut rx) = acc.unwrap().unwrap();

    let received = Arc::new(AtomicUsize::new(0));
    let received_task = received.clone();
    exec::spawn(async move {
        while let Ok(Some(msg)) = rx.recv().await {
            let msg: Bytes = msg.into();
            received_task.store(msg.len(), Ordering::SeqCst);
        }
    });

    let msg = Bytes::from(vec![1u8; 300_000]);
    let mut attempts = 0;
    let mut sent = false;
    while attempts < 50 && !sent {
        attempts += 1;
        match tx.try_send(&msg) {
            Ok(()) => sent = true,
            Err(chmux::TrySendError::Full) => tokio::time::sleep(Duration::from_millis(20)).await,
            Err(err) => panic!("try_send failed: {err}"),
        }
    }
    tokio::time::sleep(Duration::from_millis(100)).await;

    assert!(sent, "try_send reported a full queue {attempts} times with an idle dispatcher and receiver");
    assert_eq!(received.load(Ordering::SeqCst), 300_000);
}
