// Replay for the repaired defect  property=C01  (follow-up of 6b4f8e3)  fix "recv_any delivers the message that follows a cancelled one whole when it fits"
// obligation: U3_receiver.Receiver::recv_any/recv_any_no_loss (reference reassembly `ref_any`, restart case)
// How to run: save as remoc/tests/chmux/probe_recv_after_cancel.rs, add `mod probe_recv_after_cancel;` to remoc/tests/chmux/mod.rs,
//     cargo test --offline -p remoc --test tests h_chmux_recv_after_cancel
// Before the fix: sender streams 500 bytes with send_chunks() and drops the ChunkSender, then sends two 5-byte messages; receiver
// (max_data_size 100): recv_any -> Chunks, recv_chunk.. -> Cancelled, then recv() -> Err(ExceedsMaxDataSize(100)) for the first
// 5-byte message, which is then lost.  (Raw chmux API only; the typed channels never mix recv_chunk and recv.)

use std::time::Duration;
use tokio::time::timeout;
use crate::loop_channel;
use remoc::{chmux, rch::bin};
const T: Duration = Duration::from_secs(10);

/// chmux level: small message after a cancelled streamed message.
#[tokio::test]
async fn h_chmux_recv_after_cancel() {
    crate::init();
    let ((mut a_tx, _), (_, mut b_rx)) = loop_channel::<bin::Sender>().await;
    let (tx, rx) = bin::channel();
    a_tx.send(tx).await.unwrap();
    let tx = timeout(T, b_rx.recv()).await.expect("hang").unwrap().unwrap();
    let mut tx = tx.into_inner().await.unwrap();
    let mut rx = rx.into_inner().await.unwrap();
    rx.set_max_data_size(100);

    let sender = tokio::spawn(async move {
        let cs = tx.send_chunks();
        let cs = cs.send(vec![1u8; 500].into()).await.unwrap();
        drop(cs);
        tx.send(vec![2u8; 5].into()).await.unwrap();
        tx.send(vec![3u8; 5].into()).await.unwrap();
        tx
    });

    match timeout(T, rx.recv_any()).await.expect("hang").unwrap() {
        Some(chmux::Received::Chunks) => (),
        other => panic!("{other:?}"),
    }
    loop {
        match timeout(T, rx.recv_chunk()).await.expect("hang") {
            Ok(Some(_)) => (),
            Ok(None) => panic!("cancelled message completed"),
            Err(err) => {
                println!("{err}");
                break;
            }
        }
    }
    let d: Vec<u8> = timeout(T, rx.recv()).await.expect("hang").expect("small message reported as too big").unwrap().into();
    assert_eq!(d, vec![2u8; 5]);
    let d: Vec<u8> = timeout(T, rx.recv()).await.expect("hang").unwrap().unwrap().into();
    assert_eq!(d, vec![3u8; 5]);
    let _ = sender.await;
}
