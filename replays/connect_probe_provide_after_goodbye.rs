// Replay for the repaired defect  property=C08 (also C06, C01)  fix 640028e "ConnectExt::provide fails when the connection terminates before the value is sent"
// (sibling of 9c9d937, found by the round that reviewed my repairs)
// obligations: U12_connect.ConnectExt::provide::race/safety and .../provide_reports_success_only_for_a_value_that_was_sent_and_never_spawns_a_finished_dispatcher
// How to run: save as remoc/tests/rch/review_provide.rs, add `mod review_provide;` to remoc/tests/rch/mod.rs,
//     cargo test --offline -p remoc --test tests review_provide
// Before the fix: A calls Connect::framed(..).provide(value) with 100 kB against a 1 kB receive buffer; B never reads and says goodbye
// 0.5 s later.  provide returns Ok(()) although nothing was delivered, and the task it spawns for the dispatcher panics at mux.rs:630
// "`async fn` resumed after completion".

//! Review of 9c9d937 (Connect::framed fails when the multiplexer terminates during connection
//! establishment): the sibling select! in ConnectExt::provide.

use futures::{future::try_join, stream::StreamExt};
use std::time::Duration;

use crate::loop_transport;
use remoc::{chmux, exec, prelude::*};

/// `provide` sends a single value to the remote endpoint. When the connection dispatcher ends
/// (here: the remote endpoint says goodbye, as in the scenario of 9c9d937) before the value has
/// been sent, `provide` must fail: the value was not provided.
#[tokio::test]
async fn provide_fails_when_connection_terminates_before_value_is_sent() {
    crate::init();

    loop_transport!(0, a_tx, a_rx, b_tx, b_rx);

    // Remote endpoint B: plain chmux. It takes part in establishing the base channel,
    // does not read from it, and then terminates the connection.
    let b_cfg = chmux::Cfg { receive_buffer: 1024, chunk_size: 256, ..Default::default() };
    let b = exec::spawn(async move {
        let (b_mux, b_client, mut b_listener) = chmux::ChMux::new(b_cfg, b_tx, b_rx).await.unwrap();
        let b_mux_task = exec::spawn(b_mux.run());

        let (conn, acc) = try_join(
            async { b_client.connect().await.map_err(|err| err.to_string()) },
            async { b_listener.accept().await.map_err(|err| err.to_string()) },
        )
        .await
        .unwrap();
        let _ports = (conn, acc.unwrap());

        // Let A start sending; it blocks on flow control since nobody reads here.
        tokio::time::sleep(Duration::from_millis(500)).await;

        // Goodbye.
        b_client.terminate();
        let res = b_mux_task.await.unwrap();
        println!("B mux result: {res:?}");
    });

    // Local endpoint A provides a value that does not fit into the receive buffer of B.
    let value: Vec<u8> = vec![7; 100_000];
    let connect = remoc::Connect::framed::<_, _, Vec<u8>, Vec<u8>, remoc::codec::Default>(
        chmux::Cfg::default(),
        a_tx,
        a_rx,
    );
    let res = tokio::time::timeout(Duration::from_secs(10), connect.provide(value)).await.expect("provide hangs");
    println!("provide result: {res:?}");

    b.await.unwrap();

    // Give the dispatcher task that provide() has spawned the chance to run.
    tokio::time::sleep(Duration::from_millis(200)).await;

    assert!(
        res.is_err(),
        "provide reports success although the connection terminated before the value could be sent \
         (B never read anything; the finished dispatcher future is moreover spawned and polled again)"
    );
}
