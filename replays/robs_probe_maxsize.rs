use remoc::robs::{RecvError, vec::ObservableVec, vec_deque::ObservableVecDeque};
use std::time::Duration;
use tokio::time::sleep;

#[tokio::test]
async fn vec_insert_exceeds_max_size() {
    let mut obs: ObservableVec<u32, remoc::codec::Default> = ObservableVec::new();
    let mirror = obs.subscribe(1024).mirror(3);
    for i in 0..10 {
        obs.insert(0, i);
    }
    sleep(Duration::from_millis(300)).await;
    let r = mirror.borrow().await;
    assert!(matches!(r, Err(RecvError::MaxSizeExceeded(3))), "mirror grew past max_size without error: {:?}", r.map(|m| m.len()));
}

#[tokio::test]
async fn vec_resize_exceeds_max_size() {
    let mut obs: ObservableVec<u32, remoc::codec::Default> = ObservableVec::new();
    let mirror = obs.subscribe(1024).mirror(3);
    obs.resize(10, 7);
    sleep(Duration::from_millis(300)).await;
    let r = mirror.borrow().await;
    assert!(matches!(r, Err(RecvError::MaxSizeExceeded(3))), "mirror grew past max_size without error: {:?}", r.map(|m| m.len()));
}

#[tokio::test]
async fn vec_deque_insert_resize_exceed_max_size() {
    let mut obs: ObservableVecDeque<u32, remoc::codec::Default> = ObservableVecDeque::new();
    let mirror = obs.subscribe(1024).mirror(3);
    for i in 0..10 {
        obs.insert(0, i);
    }
    sleep(Duration::from_millis(300)).await;
    let r = mirror.borrow().await;
    assert!(matches!(r, Err(RecvError::MaxSizeExceeded(3))), "deque mirror grew past max_size without error: {:?}", r.map(|m| m.len()));

    let mut obs: ObservableVecDeque<u32, remoc::codec::Default> = ObservableVecDeque::new();
    let mirror = obs.subscribe(1024).mirror(3);
    obs.resize(10, 7);
    sleep(Duration::from_millis(300)).await;
    let r = mirror.borrow().await;
    assert!(matches!(r, Err(RecvError::MaxSizeExceeded(3))), "deque mirror grew past max_size without error: {:?}", r.map(|m| m.len()));
}
