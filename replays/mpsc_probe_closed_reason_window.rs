// Replay for the repaired defect  property=C11  fix ef20c70 "mpsc Sender::closed_reason never reports a close or drop as failed"
// obligation: U17_mpsc_loops.Sender::closed_reason/a_latched_error_whose_reason_is_not_yet_announced_is_classified_as_the_reason_will_be
// How to run: save as remoc/tests/rch/p_d3_closed_reason.rs, add `mod p_d3_closed_reason;` to remoc/tests/rch/mod.rs,  cargo test --offline -p remoc --test tests closed_reason_never
// Before the fix (multi-thread runtime): a thread watching tx.closed_reason() while the remote receiver is closed / dropped sees
// Some(Failed) first in ~90 % of 200 rounds (the send error is published before the reason), then Closed / Dropped.

//! The closed reason a sender reports must be right from the first moment on.
use remoc::rch::{ClosedReason, mpsc};
use crate::loop_channel;

/// The closed reason a sender reports must be the right one from the first moment on:
/// a receiver that is closed gracefully or dropped must never be reported as a failed channel.
///
/// A thread watches closed_reason() of the sender while the remote receiver is closed or dropped
/// and records the first reason that is reported.
#[cfg(not(feature = "js"))]
#[tokio::test(flavor = "multi_thread", worker_threads = 4)]
async fn closed_reason_never_transiently_failed() {
    crate::init();
    let ((mut a_tx, _), (_, mut b_rx)) = loop_channel::<mpsc::Receiver<i16>>().await;

    let mut wrong = Vec::new();
    for round in 0..200 {
        let (tx, rx) = mpsc::channel(16);
        a_tx.send(rx).await.unwrap();
        let mut rx = b_rx.recv().await.unwrap().unwrap();
        tx.send(1).await.unwrap();
        assert_eq!(rx.recv().await.unwrap(), Some(1));

        let tx2 = tx.clone();
        let watcher = std::thread::spawn(move || loop {
            if let Some(reason) = tx2.closed_reason() {
                break reason;
            }
            std::hint::spin_loop();
        });

        let expected = if round % 2 == 0 {
            rx.close();
            ClosedReason::Closed
        } else {
            drop(rx);
            ClosedReason::Dropped
        };

        let first = tokio::task::spawn_blocking(move || watcher.join().unwrap()).await.unwrap();
        tx.closed().await;
        assert_eq!(tx.closed_reason(), Some(expected.clone()));
        if first != expected {
            wrong.push(format!("round {round}: first reported {first:?}, then {expected:?}"));
        }
    }

    println!("{} of 200 rounds wrong", wrong.len());
    assert!(wrong.is_empty(), "first reported closed reason was wrong, e.g. {:?}", &wrong[..wrong.len().min(4)]);
}
