use futures::stream::StreamExt;
use bytes::Bytes;
use futures::future::try_join;
use std::time::Duration;

use crate::loop_transport;
use remoc::{chmux, exec};

fn cfg(receive_buffer: u32, shared_send_queue: usize, chunk_size: u32) -> chmux::Cfg {
    chmux::Cfg {
        connection_timeout: None,
        max_ports: 50,
        chunk_size,
        receive_buffer,
        shared_send_queue,
        ..Default::default()
    }
}

/// connect() with a credit pool that is not a multiple of 4: expected to complete; livelocks on pinned tree.
#[tokio::test]
async fn probe_connect_livelock() {
    loop_transport!(0, a_tx, a_rx, b_tx, b_rx);
    let ((a_mux, a_client, _a_server), (b_mux, _b_client, mut b_server)) = try_join(
        chmux::ChMux::new(cfg(1000, 16, 100), a_tx, a_rx),
        chmux::ChMux::new(cfg(6, 16, 100), b_tx, b_rx),
    )
    .await
    .unwrap();
    exec::spawn(async move { let _ = a_mux.run().await; });
    exec::spawn(async move { let _ = b_mux.run().await; });

    let (conn, acc) = tokio::join!(a_client.connect(), b_server.accept());
    let (mut a_sender, _a_receiver) = conn.unwrap();
    let (_b_sender, mut b_receiver) = acc.unwrap().unwrap();

    // b advertised receive_buffer 6 => a's pool for this port is 6.
    exec::spawn(async move {
        loop {
            match b_receiver.recv_any().await {
                Ok(Some(_)) => (),
                _ => break,
            }
        }
    });

    let alloc = a_sender.port_allocator();
    let p1 = alloc.allocate().await;
    let p2 = alloc.allocate().await;
    let res = tokio::time::timeout(
        Duration::from_secs(3),
        a_sender.connect(vec![p1.into(), p2.into()], false),
    )
    .await;
    assert!(res.is_ok(), "Sender::connect did not complete within 3 s (livelock)");
}

/// try_send of a multi-chunk message into a full shared queue: credits must not leak.
#[tokio::test(flavor = "current_thread")]
async fn probe_try_send_leak() {
    loop_transport!(0, a_tx, a_rx, b_tx, b_rx);
    let ((a_mux, a_client, _a_server), (b_mux, _b_client, mut b_server)) = try_join(
        chmux::ChMux::new(cfg(1000, 1, 4), a_tx, a_rx),
        chmux::ChMux::new(cfg(64, 1, 4), b_tx, b_rx),
    )
    .await
    .unwrap();
    exec::spawn(async move { let _ = a_mux.run().await; });
    exec::spawn(async move { let _ = b_mux.run().await; });

    let (conn, acc) = tokio::join!(a_client.connect(), b_server.accept());
    let (mut a_sender, _a_receiver) = conn.unwrap();
    let (_b_sender, mut b_receiver) = acc.unwrap().unwrap();

    let (got_tx, mut got_rx) = tokio::sync::mpsc::unbounded_channel();
    exec::spawn(async move {
        while let Ok(Some(d)) = b_receiver.recv().await {
            let _ = got_tx.send(bytes::Buf::remaining(&d));
        }
    });

    // Pool is 64, chunk 4, shared queue 1: an 8-byte message needs 2 queue slots, so every
    // try_send fails with Full after the first chunk. Repeat; nothing completes, so the
    // receiver returns at most what it consumed; afterwards a plain send of 64 bytes must still work.
    let msg = Bytes::from_static(&[7u8; 8]);
    let mut fulls = 0;
    for _ in 0..40 {
        match a_sender.try_send(&msg) {
            Ok(()) => (),
            Err(chmux::TrySendError::Full) => fulls += 1,
            Err(e) => panic!("{e}"),
        }
        tokio::task::yield_now().await;
        tokio::time::sleep(Duration::from_millis(5)).await;
    }
    println!("fulls = {fulls}");
    let res = tokio::time::timeout(Duration::from_secs(3), a_sender.send(Bytes::from_static(&[1u8; 64]))).await;
    assert!(res.is_ok(), "64-byte send blocked: credit pool leaked after {fulls} failed try_sends");
    let mut total = 0;
    while let Ok(Some(n)) = tokio::time::timeout(Duration::from_millis(500), got_rx.recv()).await { total += n; }
    println!("received total {total}");
}

/// send() futures cancelled while waiting for the shared queue: credits must not leak.
#[tokio::test(flavor = "current_thread")]
async fn probe_send_cancel_leak() {
    loop_transport!(0, a_tx, a_rx, b_tx, b_rx);
    let ((a_mux, a_client, _a_server), (b_mux, _b_client, mut b_server)) = try_join(
        chmux::ChMux::new(cfg(1000, 1, 4), a_tx, a_rx),
        chmux::ChMux::new(cfg(64, 1, 4), b_tx, b_rx),
    )
    .await
    .unwrap();
    exec::spawn(async move { let _ = a_mux.run().await; });
    exec::spawn(async move { let _ = b_mux.run().await; });

    let (conn, acc) = tokio::join!(a_client.connect(), b_server.accept());
    let (mut a_sender, _a_receiver) = conn.unwrap();
    let (_b_sender, mut b_receiver) = acc.unwrap().unwrap();
    exec::spawn(async move { while let Ok(Some(_)) = b_receiver.recv().await {} });

    // Poll each send exactly until it parks on the full shared queue (no yielding to the
    // dispatcher in between), then drop it.
    let msg = Bytes::from_static(&[7u8; 8]);
    for _ in 0..40 {
        {
            let fut = a_sender.send(msg.clone());
            futures::pin_mut!(fut);
            for _ in 0..4 {
                if futures::future::poll_fn(|cx| std::task::Poll::Ready(std::future::Future::poll(fut.as_mut(), cx))).await.is_ready() { break; }
            }
        }
        tokio::time::sleep(Duration::from_millis(5)).await;
    }
    let res = tokio::time::timeout(Duration::from_secs(3), a_sender.send(Bytes::from_static(&[1u8; 64]))).await;
    assert!(res.is_ok(), "64-byte send blocked: credit pool leaked by cancelled sends");
}
