//! C17 replay: "as long as every guard is eventually released, every read and write request eventually completes".
//! A reader whose cached value has just been invalidated (a writer is waiting) calls read() before its cache monitor
//! task got to run. ReadLock::fetch then takes the cache write lock -- with the stale value, which still counts as a
//! holder of the old generation, inside -- and asks the owner for the current value. The owner waits for that holder
//! to go away, the monitor that would remove it waits for the cache lock: nobody ever moves again although no guard
//! is held. The window is a few microseconds wide: the test varies a busy-wait delay (hits within ~100 iterations).
use remoc::{exec, robj::rw_lock::Owner};
use std::time::Duration;
use tokio::time::timeout;

async fn scenario(delay_us: u64) -> bool {
    let owner: Owner<u32, remoc::codec::Default> = Owner::new(1u32);
    let rw = owner.rw_lock();
    let rl = owner.read_lock();
    drop(rl.read().await.unwrap());
    let writer = exec::spawn(async move {
        let mut w = rw.write().await.unwrap();
        *w = 2;
        w.commit().await.unwrap();
    });
    // busy wait without yielding to the scheduler of this worker
    let t0 = std::time::Instant::now();
    while t0.elapsed() < Duration::from_micros(delay_us) { std::hint::spin_loop(); }
    let read_ok = timeout(Duration::from_secs(2), rl.read()).await.is_ok();
    let write_ok = timeout(Duration::from_secs(2), writer).await.is_ok();
    read_ok && write_ok
}

#[tokio::test(flavor = "multi_thread", worker_threads = 4)]
async fn stress() {
    let mut bad = 0;
    for i in 0..4000u64 {
        let d = i % 200;
        if !scenario(d).await { bad += 1; eprintln!("stuck at iteration {i}, delay {d}us"); if bad >= 3 { break; } }
    }
    assert_eq!(bad, 0, "read / write stuck although no guard is held");
}
