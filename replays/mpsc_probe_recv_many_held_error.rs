// Replay for the repaired defect  property=C11 (also C04)  fix 041aa09 "mpsc recv_many does not report a closed channel for a batch of held back errors"
// (residue of the earlier repair 090ea09)
// obligation: U14_mpsc.Receiver::recv_many/recv_many_says_closed_only_when_the_queue_has_ended
// How to run: save as remoc/tests/rch/j_recv_many_held_error.rs, add `mod j_recv_many_held_error;` to remoc/tests/rch/mod.rs,
//     cargo test --offline -p remoc --test tests j_recv_many
// Before the fix: an mpsc channel with a live local sender and a second sender on a remote endpoint whose connection fails: the failure
// arrives as a final Err item; recv_many stores it, has pushed zero values and returns Ok(0) = "channel closed"; a drain loop stops and the
// value the live sender sends 300 ms later is never received.

//! mpsc::Receiver::recv_many must not report end-of-stream (Ok(0)) while a sender is still alive,
//! only because the batch it took from the queue consisted of the held-back connection error
//! of another sender.

use std::time::Duration;

use crate::droppable_loop_channel;
use remoc::rch::mpsc;

#[tokio::test]
async fn recv_many_held_back_error_is_not_end_of_stream() {
    crate::init();
    let ((mut a_tx, _), (_, mut b_rx), conn) = droppable_loop_channel::<mpsc::Sender<i16>>().await;

    // One sender stays local, a clone goes to the remote endpoint.
    let (tx, mut rx) = mpsc::channel::<i16, remoc::codec::Default>(16);
    a_tx.send(tx.clone()).await.unwrap();
    let remote_tx = b_rx.recv().await.unwrap().unwrap();

    remote_tx.send(1).await.unwrap();
    let mut buf = Vec::new();
    assert_eq!(rx.recv_many(&mut buf, 10).await.unwrap(), 1);
    assert_eq!(buf, vec![1]);

    // The connection of the remote sender fails.
    drop(conn);
    remote_tx.closed().await;

    // Wait until the failure has been queued at the receiver.
    tokio::time::timeout(Duration::from_secs(5), async {
        while rx.len() == 0 {
            tokio::time::sleep(Duration::from_millis(10)).await;
        }
    })
    .await
    .expect("connection failure was not queued");

    // The local sender is alive and sends a value a little later.
    let local = tokio::spawn(async move {
        tokio::time::sleep(Duration::from_millis(300)).await;
        tx.send(2).await.unwrap();
        tokio::time::sleep(Duration::from_millis(300)).await;
        drop(tx);
    });

    // The usual drain loop: Ok(0) means that the channel has been closed.
    let mut received = Vec::new();
    let mut error = None;
    loop {
        let mut buf = Vec::new();
        match tokio::time::timeout(Duration::from_secs(5), rx.recv_many(&mut buf, 10)).await.expect("hang") {
            Ok(0) => break,
            Ok(_) => received.extend(buf),
            Err(err) => {
                received.extend(buf);
                let is_final = err.is_final();
                error = Some(err);
                if is_final {
                    break;
                }
            }
        }
    }
    local.await.unwrap();

    // recv() holds the connection error back until all other senders are gone and then reports it;
    // recv_many must not turn it into a premature end-of-stream.
    assert_eq!(received, vec![2], "value of the live sender was not delivered before end-of-stream");
    assert!(error.is_some(), "connection failure of the remote sender was never reported");
}
