// Replay for the OPEN known finding  property=C03  obligation U3_receiver.Receiver::recv_any/a_delivered_message_leaves_no_credit_return_waiting_for_the_next_receive_call
// How to run: save as remoc/tests/chmux/hunt_d5_parked_credits.rs, add `mod hunt_d5_parked_credits;` to remoc/tests/chmux/mod.rs,  cargo test --offline -p remoc --test tests chmux::hunt_d5
// Observed on the unchanged tree (virtual clock, no timeouts): B has receive_buffer 8 and shared_send_queue 1.  A sends 8 bytes on port 1
// and starts a second 8-byte message (waits for credits).  B sends one byte on port 2 (occupies the single queue slot) and, without
// yielding, receives the first message.  B has consumed everything, yet A's send is still blocked after 60 s: the 8 credits sit in B's
// Receiver (return_fut) and are released only when the application calls recv* again.

//! Defect hunting, round 2: credits parked in an idle receiver

#![allow(unused_imports, dead_code)]

use bytes::Bytes;
use futures::{future::try_join, stream::StreamExt};
use std::time::Duration;

use crate::loop_transport;
use remoc::{
    chmux::{self, ConnectError, PortsExhausted},
    exec,
};

fn base_cfg() -> chmux::Cfg {
    chmux::Cfg { connection_timeout: None, ..Default::default() }
}

/// C03: the receiver has consumed everything that was delivered, thus a pending send on that
/// port must complete, also when the dispatcher queue was full at the moment of consumption.
#[tokio::test(start_paused = true)]
async fn credits_parked_in_receiver_when_queue_full() {
    crate::init();

    let a_cfg = chmux::Cfg { connection_timeout: None, ..Default::default() };
    let b_cfg =
        chmux::Cfg { connection_timeout: None, receive_buffer: 8, shared_send_queue: 1, ..Default::default() };

    loop_transport!(0, a_tx, a_rx, b_tx, b_rx);
    let ((a_mux, a_client, _a_server), (b_mux, _b_client, mut b_server)) =
        try_join(chmux::ChMux::new(a_cfg, a_tx, a_rx), chmux::ChMux::new(b_cfg, b_tx, b_rx)).await.unwrap();
    exec::spawn(a_mux.run());
    exec::spawn(b_mux.run());

    // Port 1: A sends to B. Port 2: B sends to A.
    let acc = exec::spawn(async move {
        let p1 = b_server.accept().await.unwrap().unwrap();
        let p2 = b_server.accept().await.unwrap().unwrap();
        (p1, p2, b_server)
    });
    let (mut s, _s_rx) = a_client.connect().await.unwrap();
    let (_x_tx, mut x_rx) = a_client.connect().await.unwrap();
    let ((_r_tx, mut r), (mut x, _x_brx), _b_server) = acc.await.unwrap();
    exec::spawn(async move { while let Ok(Some(_)) = x_rx.recv().await {} });

    // Fills the receive buffer of port 1 on B.
    s.send(Bytes::from_static(b"01234567")).await.unwrap();
    tokio::time::sleep(Duration::from_secs(1)).await;

    // Next message has to wait for credits.
    let mut second = exec::spawn(async move {
        s.send(Bytes::from_static(b"89abcdef")).await.unwrap();
        s
    });
    tokio::time::sleep(Duration::from_secs(1)).await;
    assert!(!second.is_finished());

    // B sends on another port, which momentarily fills its dispatcher queue, and consumes
    // the message delivered on port 1.
    x.send(Bytes::from_static(b"x")).await.unwrap();
    let msg = r.recv().await.unwrap().unwrap();
    assert_eq!(Bytes::from(msg), Bytes::from_static(b"01234567"));

    // B has consumed all that was delivered, the second message must be sendable now.
    let res = tokio::time::timeout(Duration::from_secs(60), &mut second).await;
    if res.is_err() {
        // Diagnosis: polling the receiver again releases the credits.
        let r_task = exec::spawn(async move { r.recv().await.map(|msg| msg.map(Bytes::from)) });
        let res2 = tokio::time::timeout(Duration::from_secs(60), &mut second).await;
        println!("after calling recv again: send completed = {}, received = {:?}", res2.is_ok(), r_task.await);
        panic!("send waits for credits although the receiver has consumed all delivered data");
    }
}
