// Replay for the OPEN known finding  property=C11  obligation U17_mpsc_loops.Sender::send/send_error_agrees_with_the_reason_the_handle_already_reports
// How to run: append to remoc/tests/rch/mpsc.rs,  cargo test --offline -p remoc --test tests local_drop_send_error
// Observed on the unchanged tree: purely local mpsc channel, drop(rx): tx.closed_reason() == Some(Dropped), yet tx.send(v) / try_send(v)
// fail with SendError::Closed(v): is_closed() == true ("the remote endpoint closed the channel"), closed_reason() == Some(Closed).
// The same channel over a connection yields !is_closed() and Some(Dropped) (existing test rch::mpsc::simple_drop).

/// Local channel, receiver dropped: the error of a later send must be classified like the
/// sender's own `closed_reason` and like the same situation over a connection (see `simple_drop`):
/// dropped, not closed gracefully.
#[cfg_attr(not(feature = "js"), tokio::test)]
#[cfg_attr(feature = "js", wasm_bindgen_test)]
async fn local_drop_send_error_classification() {
    crate::init();
    let (tx, rx) = mpsc::channel::<u32, codec::Default>(4);

    drop(rx);
    tx.closed().await;
    assert!(tx.is_closed());
    assert_eq!(tx.closed_reason(), Some(ClosedReason::Dropped));
    // Give the sender's housekeeping task time to release the channel.
    sleep(Duration::from_millis(100)).await;

    match tx.send(0).await {
        Ok(_) => panic!("send succeeded after drop"),
        Err(err) => {
            assert!(err.is_disconnected());
            assert!(!err.is_closed(), "dropped receiver reported as closed gracefully: {err:?}");
            assert_eq!(err.closed_reason(), Some(ClosedReason::Dropped));
        }
    }
    match tx.try_send(0) {
        Ok(_) => panic!("try_send succeeded after drop"),
        Err(err) => {
            assert!(err.is_disconnected());
            assert!(!err.is_closed(), "dropped receiver reported as closed gracefully: {err:?}");
        }
    }
}
