// Replay for the repaired defect  property=C04 / C11  fix 2813c63 "mpsc SenderSink::poll_close flushes before it closes"
// obligation: U17_mpsc_loops.SenderSink::poll_close/closing_a_sink_reports_the_outcome_of_the_value_fed_last
// How to run: save as remoc/tests/rch/mpsc_sink_close.rs, add `mod mpsc_sink_close;` to remoc/tests/rch/mod.rs,  cargo test --offline -p remoc --test tests mpsc_sink_close
// Before the fix: sink_forward_reports_failed_last_item (stream.forward(sink) returns Ok(()) although the last item exceeded the item size
// limit; sink.send() of the same items reports RemoteSend(MaxItemSizeExceeded)) and sink_close_reports_value_dropped_with_queue fail.
// (The hunter's third test called close().await while the last value was blocked by flow control; with the repair close() waits there, as
// flush() does, so that test now drives close() from a task and checks that it completes, classified as dropped, once the receiver is dropped.)

//! SenderSink::close() must flush: a value handed to the sink that is then dropped with the
//! queue (receiver dropped) must be reported by close() -- or at least be classified
//! correctly by a flush() that follows.

use futures::{SinkExt, future};
use std::time::Duration;

use crate::loop_channel;
use remoc::{
    exec::time::sleep,
    rch::{ClosedReason, mpsc},
};

/// Returns a sink holding one queued value that cannot be transmitted (remote receiver does
/// not read, flow control blocks the forwarding task) together with the remote receiver.
async fn blocked_sink() -> (mpsc::SenderSink<Vec<u8>>, mpsc::Sender<Vec<u8>>, mpsc::Receiver<Vec<u8>>) {
    crate::init();
    let ((mut a_tx, _), (_, mut b_rx)) = loop_channel::<mpsc::Receiver<Vec<u8>>>().await;

    let (tx, rx) = mpsc::channel(16);
    a_tx.send(rx).await.unwrap();
    let rx = b_rx.recv().await.unwrap().unwrap();

    // Make the sink ready, i.e. let it reserve a slot of the queue.
    let mut sink = mpsc::SenderSink::from(tx.clone());
    future::poll_fn(|cx| sink.poll_ready_unpin(cx)).await.unwrap();

    // Fill the path to the remote receiver, which does not receive.
    let mut stalled = 0;
    while stalled < 3 {
        let mut progress = false;
        while tx.try_send(vec![1u8; 65536]).is_ok() {
            progress = true;
        }
        if progress {
            stalled = 0;
        } else {
            stalled += 1;
        }
        sleep(Duration::from_millis(100)).await;
    }
    assert_eq!(tx.capacity(), 0);
    assert_eq!(tx.closed_reason(), None);

    // The value is accepted by the sink and waits in the queue.
    sink.start_send_unpin(vec![2u8; 16]).unwrap();

    (sink, tx, rx)
}

/// close() "flushes any remaining output" (futures::Sink); StreamExt::forward relies on that.
#[tokio::test]
async fn sink_close_reports_value_dropped_with_queue() {
    let (mut sink, tx, rx) = blocked_sink().await;

    // The remote receiver is dropped: the queued value will never be transmitted.
    drop(rx);

    let res = tokio::time::timeout(Duration::from_secs(10), sink.close()).await.expect("close hangs");
    tx.closed().await;
    assert_eq!(tx.closed_reason(), Some(ClosedReason::Dropped));

    match res {
        Ok(()) => panic!("close() returned Ok although the value handed to the sink was dropped untransmitted"),
        Err(err) => assert_eq!(err.closed_reason(), Some(ClosedReason::Dropped)),
    }
}

/// close() flushes: while the last value is blocked by flow control it waits; when the receiver is
/// then dropped it reports the loss, classified as dropped (not as "closed gracefully").
#[tokio::test]
async fn sink_close_waits_for_the_last_value_and_classifies_drop() {
    let (mut sink, tx, rx) = blocked_sink().await;

    let closing = tokio::spawn(async move { sink.close().await });
    tokio::time::sleep(Duration::from_millis(200)).await;
    assert!(!closing.is_finished(), "close() completed although the outcome of the last value is not known");
    drop(rx);

    let res = tokio::time::timeout(Duration::from_secs(10), closing).await.expect("close hangs").unwrap();
    tx.closed().await;
    assert_eq!(tx.closed_reason(), Some(ClosedReason::Dropped));

    let err = res.expect_err("value was dropped with the queue");
    assert_eq!(
        err.closed_reason(),
        Some(ClosedReason::Dropped),
        "close reported {err:?} for a receiver that was dropped"
    );
}

/// Control: without close() the flush reports the drop correctly (37fd999).
#[tokio::test]
async fn sink_flush_without_close_classifies_drop() {
    let (mut sink, tx, rx) = blocked_sink().await;
    drop(rx);

    let res = tokio::time::timeout(Duration::from_secs(10), sink.flush()).await.expect("flush hangs");
    tx.closed().await;
    let err = res.expect_err("value was dropped with the queue");
    assert_eq!(err.closed_reason(), Some(ClosedReason::Dropped));
}

/// `stream.forward(sink)` ends with poll_close only. An item that cannot be sent
/// (size limit) must be reported to its sender; control: send() (= feed + flush) reports it.
#[tokio::test]
async fn sink_forward_reports_failed_last_item() {
    use futures::StreamExt;
    use remoc::rch::mpsc::MpscExt;
    use remoc::rch::base::SendErrorKind;

    crate::init();
    for use_forward in [false, true] {
        let ((mut a_tx, _), (_, mut b_rx)) =
            loop_channel::<mpsc::Receiver<Vec<u8>, remoc::codec::Default, 2, 1000>>().await;

        let (tx, rx) = mpsc::channel::<Vec<u8>, remoc::codec::Default>(16).with_max_item_size::<1000>();
        a_tx.send(rx).await.unwrap();
        let mut rx = b_rx.recv().await.unwrap().unwrap();
        let recv = tokio::spawn(async move {
            let mut got = Vec::new();
            while let Ok(Some(v)) = rx.recv().await {
                got.push(v.len());
            }
            got
        });

        let mut sink = mpsc::SenderSink::from(tx);
        let items = vec![vec![1u8; 10], vec![2u8; 100_000]];

        let res = if use_forward {
            futures::stream::iter(items).map(Ok).forward(&mut sink).await
        } else {
            let mut res = Ok(());
            for item in items {
                res = sink.send(item).await;
            }
            res
        };
        drop(sink);

        assert_eq!(recv.await.unwrap(), vec![10], "only the first item can arrive");
        assert!(
            matches!(res, Err(mpsc::SendError::RemoteSend(SendErrorKind::MaxItemSizeExceeded))),
            "use_forward={use_forward}: the oversized item was not delivered, but the sender was told {res:?}"
        );
    }
}
