// Replay for the OPEN known finding  property=C19  obligation U17_mpsc_loops.send_impl::data_arm/a_value_that_cannot_be_sent_fails_only_itself
// How to run: the files below go to the paths named in the markers (plus the `mod` lines);  cargo test --offline -p remoc --test tests request_send_error
// Observed on the unchanged tree: a received rtc client makes ONE call whose request exceeds max_request_size (or cannot be serialized):
// that call returns CallError::Dropped -- and every later call through this client fails too, however small
// (RemoteSend(MaxItemSizeExceeded) / RemoteSend(Serialize(..))).  Same for RFn after one unsendable argument.  send_impl latches every
// send error, also the item's own, as the fate of the channel; the existing test rch::mpsc::max_item_size_exceeded pins exactly that.

// ===== file: remoc/tests/rfn/request_send_error.rs =====
//! A call whose argument cannot be sent must fail only that call.

use std::time::Duration;

use crate::loop_channel;
use remoc::rfn::{CallError, RFn};

/// An argument that refuses to be serialized when it holds `true`.
#[derive(Debug, serde::Deserialize)]
pub struct Fussy(pub bool);

impl serde::Serialize for Fussy {
    fn serialize<S: serde::Serializer>(&self, serializer: S) -> Result<S::Ok, S::Error> {
        if self.0 { Err(serde::ser::Error::custom("fussy")) } else { serializer.serialize_bool(false) }
    }
}

#[tokio::test]
async fn unserializable_argument_fails_only_that_call() {
    crate::init();
    type F = RFn<(Fussy,), Result<u32, CallError>>;
    let ((mut a_tx, _), (_, mut b_rx)) = loop_channel::<F>().await;

    let rfn: F = RFn::new_1(|_arg: Fussy| async move { Ok(1) });
    a_tx.send(rfn).await.unwrap();
    let rfn = b_rx.recv().await.unwrap().unwrap();

    assert_eq!(rfn.call(Fussy(false)).await.unwrap(), 1);

    let res = tokio::time::timeout(Duration::from_secs(5), rfn.call(Fussy(true))).await.expect("call hangs");
    println!("unserializable argument: {res:?}");
    assert!(res.is_err());

    let res = tokio::time::timeout(Duration::from_secs(5), rfn.call(Fussy(false))).await.expect("call hangs");
    assert_eq!(res.expect("call after a call with an unserializable argument failed"), 1);
}

// ===== file: remoc/tests/rtc/request_send_error.rs =====
//! A request that cannot be sent (too big for the request size limit, or not serializable)
//! must fail only that call.

use std::{sync::Arc, time::Duration};

use remoc::rtc::CallError;

use crate::loop_channel;

/// An argument that refuses to be serialized when it holds `true`.
#[derive(Debug, serde::Deserialize)]
pub struct Fussy(pub bool);

impl serde::Serialize for Fussy {
    fn serialize<S: serde::Serializer>(&self, serializer: S) -> Result<S::Ok, S::Error> {
        if self.0 { Err(serde::ser::Error::custom("fussy")) } else { serializer.serialize_bool(false) }
    }
}

#[remoc::rtc::remote]
pub trait Api {
    async fn len(&self, data: Vec<u8>) -> Result<usize, CallError>;
    async fn fussy(&self, x: Fussy) -> Result<u32, CallError>;
}

pub struct ApiObj;

impl Api for ApiObj {
    async fn len(&self, data: Vec<u8>) -> Result<usize, CallError> {
        Ok(data.len())
    }

    async fn fussy(&self, _x: Fussy) -> Result<u32, CallError> {
        Ok(1)
    }
}

#[tokio::test]
async fn oversized_request_fails_only_that_call() {
    use remoc::rtc::{Client, ServerShared};

    crate::init();
    let (server, mut client) = ApiServerShared::new(Arc::new(ApiObj), 1);
    client.set_max_request_size(100_000);
    let server_task = tokio::spawn(server.serve(true));

    let ((mut a_tx, _), (_, mut b_rx)) = loop_channel::<ApiClient>().await;
    a_tx.send(client).await.unwrap();
    let client = b_rx.recv().await.unwrap().unwrap();
    assert_eq!(client.max_request_size(), 100_000);

    // Within the limit.
    assert_eq!(client.len(vec![1; 90_000]).await.unwrap(), 90_000);

    // Over the limit: this call fails.
    let res = tokio::time::timeout(Duration::from_secs(5), client.len(vec![1; 200_000])).await.expect("call hangs");
    println!("oversized request: {res:?}");
    assert!(res.is_err());

    // The calls that follow are not affected.
    let res = tokio::time::timeout(Duration::from_secs(5), client.len(vec![1; 10])).await.expect("call hangs");
    assert_eq!(res.expect("call after an oversized request failed"), 10);

    drop(client);
    tokio::time::timeout(Duration::from_secs(5), server_task).await.expect("server does not end").unwrap().unwrap();
}

#[tokio::test]
async fn unserializable_request_fails_only_that_call() {
    use remoc::rtc::ServerShared;

    crate::init();
    let (server, client) = ApiServerShared::new(Arc::new(ApiObj), 1);
    let server_task = tokio::spawn(server.serve(true));

    let ((mut a_tx, _), (_, mut b_rx)) = loop_channel::<ApiClient>().await;
    a_tx.send(client).await.unwrap();
    let client = b_rx.recv().await.unwrap().unwrap();

    assert_eq!(client.fussy(Fussy(false)).await.unwrap(), 1);

    let res = tokio::time::timeout(Duration::from_secs(5), client.fussy(Fussy(true))).await.expect("call hangs");
    println!("unserializable request: {res:?}");
    assert!(res.is_err());

    let res = tokio::time::timeout(Duration::from_secs(5), client.fussy(Fussy(false))).await.expect("call hangs");
    assert_eq!(res.expect("call after an unserializable request failed"), 1);

    drop(client);
    tokio::time::timeout(Duration::from_secs(5), server_task).await.expect("server does not end").unwrap().unwrap();
}
