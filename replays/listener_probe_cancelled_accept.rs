// Replay for the repaired defect  property=C10  fix 4ac1a64 "a cancelled Listener::accept keeps the waiting request it has taken"
// (a REGRESSION of MY OWN repair 78aeedc, found by the round that reviewed my newest repairs)
// obligation: U11_listener.Listener::accept/listener_accept_answers_every_request_it_takes (ledger over owed(): queued or taken-and-kept;
//             no await while a request is owned outside the listener) and the guard obligation of the branch
// How to run: save as remoc/tests/chmux/review_accept.rs, add `mod review_accept;` to remoc/tests/chmux/mod.rs,  cargo test --offline -p remoc --test tests review_accept
// Before the fix (on 78aeedc..): all local ports in use, the remote client sent one waiting request and was dropped; accept() is pending and
// is cancelled (timeout); then a port is freed and accept() is called again: the remote Connect resolves Err(Rejected) and accept returns
// Ok(None) -- with 78aeedc^ the request stayed queued and was accepted.

//! Review of 78aeedc (Listener::accept notices the dropped client while all local ports are in use).

use futures::{future::try_join, stream::StreamExt};
use std::time::Duration;
use tokio::time::timeout;

use crate::loop_transport;
use remoc::{chmux, exec};

fn cfg(max_ports: u32) -> chmux::Cfg {
    chmux::Cfg { max_ports, connection_timeout: None, ..Default::default() }
}

/// C10: a request resolves exactly once with the true reason, for all cancelled accept futures.
///
/// All local ports of the listening endpoint are in use, the remote client has made one more
/// request (with the wait flag) and has then been dropped. A pending accept() is cancelled
/// (as happens in every `select!` loop around accept). The request was neither rejected nor
/// dropped by the application, so it must still be there when a port becomes available.
#[tokio::test]
async fn cancelled_accept_keeps_waiting_request() {
    crate::init();

    loop_transport!(0, a_tx, a_rx, b_tx, b_rx);
    let ((a_mux, a_client, _a_listener), (b_mux, _b_client, mut b_listener)) =
        try_join(chmux::ChMux::new(cfg(100), a_tx, a_rx), chmux::ChMux::new(cfg(2), b_tx, b_rx)).await.unwrap();
    exec::spawn(async move { a_mux.run().await });
    exec::spawn(async move { b_mux.run().await });

    // Use up both local ports of B.
    let a_client2 = a_client.clone();
    let (p1, p2, acc) = tokio::join!(a_client.connect(), a_client2.connect(), async {
        let x = b_listener.accept().await.unwrap().unwrap();
        let y = b_listener.accept().await.unwrap().unwrap();
        (x, y)
    });
    let a_p1 = p1.unwrap();
    let a_p2 = p2.unwrap();
    let (b_p1, b_p2) = acc;

    // One more request that waits for a port, then the client goes away.
    let mut connect = a_client.connect_ext(None, true).await.unwrap();
    connect.sent().await;
    drop(a_client);
    drop(a_client2);

    // accept() cannot complete: no port is available. It is cancelled.
    let res = timeout(Duration::from_millis(500), b_listener.accept()).await;
    assert!(res.is_err(), "accept completed without a free port: {res:?}");

    // A port becomes available.
    drop(a_p1);
    drop(b_p1);

    // The request must be accepted now.
    let accepted = timeout(Duration::from_secs(5), b_listener.accept()).await.expect("accept hangs").unwrap();
    let connected = timeout(Duration::from_secs(5), connect).await.expect("connect hangs");
    assert!(
        connected.is_ok(),
        "request that nobody rejected was refused as {:?} by a cancelled accept()",
        connected.err()
    );
    assert!(accepted.is_some(), "accept() reported the end of requests although one was pending");

    drop(a_p2);
    drop(b_p2);
}
