use futures::stream::StreamExt;
use bytes::{Buf, Bytes};
use futures::future::try_join;
use std::time::Duration;

use crate::loop_transport;
use remoc::{chmux, exec};

/// A streamed message is cancelled mid-way; the message sent right after it must still be delivered.
#[tokio::test]
async fn probe_message_after_cancelled_chunks() {
    let cfg = chmux::Cfg { connection_timeout: None, chunk_size: 8, max_data_size: 8, receive_buffer: 1024, ..Default::default() };
    loop_transport!(0, a_tx, a_rx, b_tx, b_rx);
    let ((a_mux, a_client, _a_server), (b_mux, _b_client, mut b_server)) =
        try_join(chmux::ChMux::new(cfg.clone(), a_tx, a_rx), chmux::ChMux::new(cfg.clone(), b_tx, b_rx)).await.unwrap();
    exec::spawn(async move { let _ = a_mux.run().await; });
    exec::spawn(async move { let _ = b_mux.run().await; });
    let (conn, acc) = tokio::join!(a_client.connect(), b_server.accept());
    let (mut a_sender, _a_receiver) = conn.unwrap();
    let (_b_sender, mut b_receiver) = acc.unwrap().unwrap();

    // message A: streamed, cancelled after 16 bytes
    let cs = a_sender.send_chunks();
    let cs = cs.send(Bytes::from_static(&[0xAA; 16])).await.unwrap();
    drop(cs);
    // messages B and C complete
    a_sender.send(Bytes::from_static(b"BBBB")).await.unwrap();
    a_sender.send(Bytes::from_static(b"CCCC")).await.unwrap();
    tokio::time::sleep(Duration::from_millis(200)).await;

    // receiver as used by remoc's own forwarder: recv_any, stream chunks, on Cancelled go back to recv_any
    let mut got: Vec<Vec<u8>> = Vec::new();
    for _ in 0..4 {
        match tokio::time::timeout(Duration::from_secs(2), b_receiver.recv_any()).await {
            Ok(Ok(Some(chmux::Received::Data(mut d)))) => got.push(d.copy_to_bytes(d.remaining()).to_vec()),
            Ok(Ok(Some(chmux::Received::Chunks))) => {
                let mut msg = Vec::new();
                loop {
                    match b_receiver.recv_chunk().await {
                        Ok(Some(c)) => msg.extend_from_slice(&c),
                        Ok(None) => { got.push(msg); break; }
                        Err(chmux::RecvChunkError::Cancelled) => break,
                        Err(e) => panic!("{e}"),
                    }
                }
            }
            Ok(Ok(Some(_))) => (),
            Ok(Ok(None)) | Err(_) => break,
            Ok(Err(e)) => panic!("{e}"),
        }
    }
    assert_eq!(got, vec![b"BBBB".to_vec(), b"CCCC".to_vec()], "completed sends must be delivered exactly");
}
