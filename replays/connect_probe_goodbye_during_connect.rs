// Replay for the repaired defect  property=C08 (also C06)  fix 9c9d937 "Connect::framed fails when the multiplexer terminates during connection establishment"
// obligation: U12_connect.Connect::framed::race/a_finished_dispatcher_is_never_handed_out_as_the_connection_future
// How to run: save as remoc/tests/chmux/hunt_d6_goodbye_during_connect.rs, add `mod hunt_d6_goodbye_during_connect;` to remoc/tests/chmux/mod.rs,
//     cargo test --offline -p remoc --test tests chmux::      (schedule dependent: run the whole chmux group, repeat a few times)
// Before the fix (1 of 3 runs under load here, and in the hunter's run): a raw peer answers the endpoint's OpenPort with PortOpened
// immediately followed by Goodbye.  The dispatcher finishes with Ok(()), the refutable select! branch `Err(err) = &mut connection` is
// only disabled, base::connect still succeeds, Connect::framed returns Ok and the spawned connection future panics at
// remoc/src/chmux/mux.rs:626 "`async fn` resumed after completion".

//! Defect hunting, round 2: Connect::framed returns a finished connection future

#![allow(unused_imports, dead_code)]

use bytes::Bytes;
use futures::{future::try_join, stream::StreamExt};
use std::time::Duration;

use crate::loop_transport;
use remoc::{
    chmux::{self, ConnectError, PortsExhausted},
    exec,
};

fn base_cfg() -> chmux::Cfg {
    chmux::Cfg { connection_timeout: None, ..Default::default() }
}

mod raw {
    use bytes::Bytes;

    pub fn hello() -> Bytes {
        let mut v = vec![2u8];
        v.extend_from_slice(b"CHMUX\0");
        v.push(remoc::chmux::PROTOCOL_VERSION);
        v.extend_from_slice(&0u64.to_le_bytes());
        v.extend_from_slice(&16_384u32.to_le_bytes());
        v.extend_from_slice(&524_288u32.to_le_bytes());
        v.extend_from_slice(&128u16.to_le_bytes());
        v.into()
    }

    pub fn open_port(port: u32) -> Bytes {
        let mut v = vec![4u8];
        v.extend_from_slice(&port.to_le_bytes());
        v.push(0);
        v.into()
    }

    pub const MSG_LISTENER_FINISH: u8 = 14;
}

/// C08: a peer that answers the connect request of `Connect::framed` late and says Goodbye
/// right after. Neither `Connect::framed` nor the connection future it returns may panic.
#[cfg(feature = "rch")]
#[tokio::test]
async fn goodbye_during_connect_framed() {
    use futures::SinkExt;
    use remoc::rch::base;

    crate::init();

    let cfg = chmux::Cfg { connection_timeout: None, ..Default::default() };

    let (mut p_tx, e_rx) = futures::channel::mpsc::channel::<Bytes>(0);
    let (e_tx, mut p_rx) = futures::channel::mpsc::channel::<Bytes>(0);
    let e_rx = e_rx.map(Ok::<_, std::io::Error>);

    let peer = exec::spawn(async move {
        p_tx.send(raw::hello()).await.unwrap();
        let _reset = p_rx.next().await.unwrap();
        let _hello = p_rx.next().await.unwrap();

        // Connect request of the endpoint.
        let client_port = loop {
            let frame = p_rx.next().await.unwrap();
            if frame[0] == 4 {
                break u32::from_le_bytes(frame[1..5].try_into().unwrap());
            }
        };

        // Our connect request, wait until it is accepted.
        p_tx.send(raw::open_port(9)).await.unwrap();
        loop {
            let frame = p_rx.next().await.unwrap();
            if frame[0] == 5 {
                assert_eq!(u32::from_le_bytes(frame[1..5].try_into().unwrap()), 9);
                break;
            }
        }

        // Now accept the connect request of the endpoint and say goodbye.
        let mut port_opened = vec![5u8];
        port_opened.extend_from_slice(&client_port.to_le_bytes());
        port_opened.extend_from_slice(&77u32.to_le_bytes());
        p_tx.feed(port_opened.into()).await.unwrap();
        p_tx.feed(Bytes::from_static(&[15])).await.unwrap();
        let _ = p_tx.flush().await;

        // Take whatever the endpoint still sends.
        while let Some(_frame) = p_rx.next().await {}
    });

    let res: Result<(_, base::Sender<u8>, base::Receiver<u8>), _> = remoc::Connect::framed(cfg, e_tx, e_rx).await;
    match res {
        Ok((conn, _tx, _rx)) => {
            println!("connected");
            let res = tokio::time::timeout(Duration::from_secs(10), exec::spawn(conn)).await;
            match res {
                Ok(Ok(res)) => println!("connection result: {res:?}"),
                Ok(Err(err)) => panic!("connection future returned by Connect::framed failed: {err}"),
                Err(_) => panic!("connection future hangs"),
            }
        }
        Err(err) => println!("connect failed: {err}"),
    }

    peer.abort();
}
