// Replay for the repaired defect  property=C06 (also C11)  fix 063ca20 "chmux forward ends with an error when its outgoing multiplexer has terminated"
// (residue of my repair 0ec0001, which looked at Some(false) only; the old behaviour was the same)
// obligation: U2_sender.forward::closed_arm/relay_ends_with_an_error_when_its_outgoing_multiplexer_is_gone
// How to run: save as remoc/tests/chmux/review_forward.rs, add `mod review_forward;` to remoc/tests/chmux/mod.rs,
//     cargo test --offline -p remoc --test tests review_forward -- --nocapture
// (the hunter's test kept the incoming receiver alive in the task's result; as in rch::bin's forwarding task it is dropped here when forward() returns)
// Before the fix: relay A -> B -> C; the connection B<->C dies.  A's next send returns Closed { gracefully: true } and forward() is still
// running 5 s later.

//! Review of 0ec0001 (forward reports a dropped receiver to the sender as dropped):
//! the sibling case of an outgoing multiplexer that has failed.

use futures::{future::try_join, stream::StreamExt};
use std::time::Duration;

use crate::loop_transport;
use remoc::{
    chmux::{self, SendError},
    exec,
};

fn cfg() -> chmux::Cfg {
    chmux::Cfg { connection_timeout: Some(Duration::from_secs(2)), ..Default::default() }
}

/// A -> B -> C: B forwards a port it accepted from A to a port it opened to C.
/// Then the connection between B and C fails.
///
/// Nothing that A sends from now on can be processed by anybody. `forward()` is an operation on a
/// port of the failed connection, it must end with an error; and A must not be told that the
/// channel was closed gracefully ("remote endpoint still processes messages that were already sent").
#[tokio::test]
async fn forward_ends_with_error_when_outgoing_multiplexer_fails() {
    crate::init();

    // Connection A <-> B.
    loop_transport!(0, a_tx, a_rx, b1_tx, b1_rx);
    let ((a_mux, a_client, _a_listener), (b1_mux, _b1_client, mut b1_listener)) =
        try_join(chmux::ChMux::new(cfg(), a_tx, a_rx), chmux::ChMux::new(cfg(), b1_tx, b1_rx)).await.unwrap();
    exec::spawn(async move {
        let _ = a_mux.run().await;
    });
    exec::spawn(async move {
        let _ = b1_mux.run().await;
    });

    // Connection B <-> C.
    loop_transport!(0, b2_tx, b2_rx, c_tx, c_rx);
    let ((b2_mux, b2_client, _b2_listener), (c_mux, _c_client, mut c_listener)) =
        try_join(chmux::ChMux::new(cfg(), b2_tx, b2_rx), chmux::ChMux::new(cfg(), c_tx, c_rx)).await.unwrap();
    let b2_task = exec::spawn(async move { b2_mux.run().await });
    let c_task = exec::spawn(async move {
        let _ = c_mux.run().await;
    });

    // Ports.
    let (a_conn, b1_acc) = tokio::join!(a_client.connect(), b1_listener.accept());
    let (mut a_port_tx, _a_port_rx) = a_conn.unwrap();
    let (_b_in_tx, mut b_in_rx) = b1_acc.unwrap().unwrap();

    let (b2_conn, c_acc) = tokio::join!(b2_client.connect(), c_listener.accept());
    let (mut b_out_tx, _b_out_rx) = b2_conn.unwrap();
    let (_c_port_tx, mut c_port_rx) = c_acc.unwrap().unwrap();

    // B forwards.
    let forward_task = exec::spawn(async move {
        let res = b_in_rx.forward(&mut b_out_tx).await;
        // like rch::bin's forwarding task: the incoming receiver is dropped when forwarding has ended
        drop(b_in_rx);
        (res, (), b_out_tx)
    });

    // Forwarding works.
    a_port_tx.send("hello".into()).await.unwrap();
    let msg = c_port_rx.recv().await.unwrap().unwrap();
    assert_eq!(Vec::from(msg), b"hello".to_vec());

    // The connection between B and C breaks: C goes away, the transport ends.
    c_task.abort();
    drop(c_port_rx);
    let b2_res = tokio::time::timeout(Duration::from_secs(5), b2_task).await.expect("B2 mux hangs").unwrap();
    assert!(b2_res.is_err(), "B2 mux must fail: {b2_res:?}");

    // A is told that its receiver is gone.
    tokio::time::timeout(Duration::from_secs(5), a_port_tx.closed()).await.expect("A is told nothing");

    // What is A told?
    let send_res = a_port_tx.send("lost".into()).await;
    println!("A send result after failure of B <-> C: {send_res:?}");

    // forward() must end with an error in bounded time (A keeps its sender).
    let fwd = tokio::time::timeout(Duration::from_secs(5), forward_task).await;
    match &fwd {
        Ok(Ok((Err(err), _, _))) => println!("forward failed as it should: {err}"),
        Ok(Ok((Ok(n), _, _))) => panic!("forward reports success ({n} bytes) although its outgoing multiplexer failed"),
        Ok(Err(err)) => panic!("forward task panicked: {err}"),
        Err(_) => println!("forward() still running 5 s after its outgoing multiplexer failed"),
    }

    assert!(
        !matches!(send_res, Err(SendError::Closed { gracefully: true })),
        "A is told that the channel was closed gracefully, i.e. that the remote endpoint still processes \
         the messages already sent, although the forwarding connection has failed: {send_res:?}"
    );
    assert!(fwd.is_ok(), "forward() hangs after its outgoing multiplexer failed");
}
