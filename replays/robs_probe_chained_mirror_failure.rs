// Replay for the known finding  property=C14  obligation=U7_{vec,vec_deque,hash_map,hash_set}.MirrorTask::mirror_task_step/a_failing_mirror_tells_its_own_subscribers
// How to run: append the test below to remoc/tests/robs/vec.rs, then  cargo test --offline -p remoc --test tests chained_mirror
// Observed: obs -> mirror1 -> mirror1.subscribe() -> sub2; after drop(obs) mirror1 reports RecvError::Closed, but sub2.recv() never
// returns (3 s timeout): the MirroredVec handle keeps the broadcast sender alive and nothing is sent to the mirror's subscribers.


/// C14: a subscription obtained from a mirror must not diverge silently:
/// when the mirror it is fed from lost its source (observed vector dropped before done),
/// the downstream subscriber must receive an error instead of waiting forever on
/// stale contents.
#[cfg_attr(not(feature = "js"), tokio::test)]
#[cfg_attr(feature = "js", wasm_bindgen_test)]
async fn chained_mirror_reports_upstream_loss() {
    let mut obs: ObservableVec<u32, remoc::codec::Default> = ObservableVec::new();
    obs.push(1);

    let mirror1 = obs.subscribe(1024).mirror(1000);
    let mut sub2 = mirror1.subscribe(1024).await.unwrap();
    assert_eq!(sub2.take_initial(), Some(vec![1]));

    obs.push(2);
    assert_eq!(sub2.recv().await.unwrap(), Some(VecEvent::Push(2)));

    // Observed vector is dropped without done.
    drop(obs);

    // First-level mirror reports it.
    tokio::time::timeout(Duration::from_secs(10), async {
        loop {
            match mirror1.borrow().await {
                Ok(_) => sleep(Duration::from_millis(20)).await,
                Err(RecvError::Closed) => break,
                Err(other) => panic!("unexpected error {other:?}"),
            }
        }
    })
    .await
    .expect("first-level mirror did not report loss of observed vector");

    // Downstream subscriber must be told as well.
    match tokio::time::timeout(Duration::from_secs(3), sub2.recv()).await {
        Ok(Err(_)) => (),
        Ok(Ok(evt)) => panic!("downstream subscriber received {evt:?} instead of an error"),
        Err(_) => panic!("downstream subscriber of a failed mirror is never notified of the failure"),
    }
}
