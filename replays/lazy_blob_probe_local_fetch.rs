use bytes::{Buf, Bytes};
use remoc::robj::{lazy::Lazy, lazy_blob::LazyBlob};
use std::time::Duration;
use tokio::time::timeout;

#[tokio::test]
async fn lazy_blob_fetched_where_it_was_created() {
    let blob: LazyBlob<remoc::codec::Default> = LazyBlob::new(Bytes::from_static(b"hello"));
    let got = timeout(Duration::from_secs(5), blob.get()).await.expect("hangs");
    let mut got = got.expect("local fetch failed");
    assert_eq!(got.copy_to_bytes(got.remaining()), Bytes::from_static(b"hello"));
}

#[tokio::test]
async fn lazy_fetched_where_it_was_created() {
    let lazy: Lazy<String, remoc::codec::Default> = Lazy::new("hello".to_string());
    let got = timeout(Duration::from_secs(5), lazy.get()).await.expect("hangs").expect("local fetch failed");
    assert_eq!(*got, "hello");
}
