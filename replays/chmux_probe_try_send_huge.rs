use futures::stream::StreamExt;
use bytes::Bytes;
use futures::future::try_join;

use crate::loop_transport;
use remoc::{chmux, exec};

/// try_send of a message longer than u32::MAX bytes must not panic.
#[tokio::test]
async fn probe_try_send_huge() {
    let cfg = chmux::Cfg {
        connection_timeout: None,
        chunk_size: u32::MAX,
        receive_buffer: u32::MAX,
        max_data_size: usize::MAX,
        ..Default::default()
    };
    loop_transport!(0, a_tx, a_rx, b_tx, b_rx);
    let ((a_mux, a_client, _a_server), (b_mux, _b_client, mut b_server)) =
        try_join(chmux::ChMux::new(cfg.clone(), a_tx, a_rx), chmux::ChMux::new(cfg.clone(), b_tx, b_rx)).await.unwrap();
    exec::spawn(async move { let _ = a_mux.run().await; });
    exec::spawn(async move { let _ = b_mux.run().await; });
    let (conn, acc) = tokio::join!(a_client.connect(), b_server.accept());
    let (mut a_sender, _a_receiver) = conn.unwrap();
    let (_b_sender, _b_receiver) = acc.unwrap().unwrap();

    let data = Bytes::from(vec![0u8; u32::MAX as usize + 2]);
    let res = std::panic::catch_unwind(std::panic::AssertUnwindSafe(|| a_sender.try_send(&data)));
    assert!(res.is_ok(), "try_send panicked on a message longer than u32::MAX bytes");
}
