// Replay for the repaired defect  property=C10 (C05)  fix 182264b "forward() accepts a forwarded port request on a port of the multiplexer it came from"
// obligation: U10_base_ports.forward::request_task/safety (precondition of Request::accept_from: the port comes from the request's own multiplexer)
// How to run: save as remoc/tests/chmux/hunt_d3.rs, add `mod hunt_d3;` to remoc/tests/chmux/mod.rs,
//     cargo test --offline -p remoc --test tests hunt_d3
// Before the fix: A<->B, C<->D, B forwards to C, C has max_ports = 2 (all it needs): a port request sent from A over the
// forwarded port never resolves -- the forwarder hangs in allocate() on C's allocator for a port that is entered into B's table.

//! Defect hunting test for the channel multiplexer (D3).
#![allow(unused_imports)]

use bytes::Bytes;
use futures::{future::try_join, stream::StreamExt};
use std::time::Duration;

use crate::loop_transport;
use remoc::{
    chmux::{self, PortsExhausted, Received, RecvChunkError},
    exec,
    exec::time::{sleep, timeout},
};

fn hunt_cfg() -> chmux::Cfg {
    chmux::Cfg {
        connection_timeout: None,
        max_ports: 20,
        ports_exhausted: PortsExhausted::Fail,
        max_data_size: 1_000_000,
        max_received_ports: 100,
        chunk_size: 16,
        receive_buffer: 64,
        shared_send_queue: 16,
        connect_queue: 4,
        ..Default::default()
    }
}

type End = (chmux::Client, chmux::Listener);

async fn mux_pair(a_cfg: chmux::Cfg, b_cfg: chmux::Cfg) -> (End, End) {
    loop_transport!(0, a_tx, a_rx, b_tx, b_rx);
    let ((a_mux, a_client, a_server), (b_mux, b_client, b_server)) =
        try_join(chmux::ChMux::new(a_cfg, a_tx, a_rx), chmux::ChMux::new(b_cfg, b_tx, b_rx)).await.unwrap();
    exec::spawn(async move {
        let _ = a_mux.run().await;
    });
    exec::spawn(async move {
        let _ = b_mux.run().await;
    });
    ((a_client, a_server), (b_client, b_server))
}

/// Ports sent over a forwarded port must be connected through the forwarder, using ports of
/// the multiplexers the forwarded channels belong to.
#[tokio::test]
async fn forward_ports_with_tight_port_limit() {
    crate::init();
    forward_ports(2).await;
}

async fn forward_ports(c_max_ports: u32) {

    // Connection X: A <-> B, connection Y: C <-> D. B forwards to C.
    let mut c_cfg = hunt_cfg();
    // C needs one port for the forwarding channel and one port for the forwarded port.
    c_cfg.max_ports = c_max_ports;
    let ((a_client, _a_server), (_b_client, mut b_server)) = mux_pair(hunt_cfg(), hunt_cfg()).await;
    let ((c_client, _c_server), (_d_client, mut d_server)) = mux_pair(c_cfg, hunt_cfg()).await;

    let (conn, acc) = tokio::join!(a_client.connect(), b_server.accept());
    let (mut a_tx, _a_rx) = conn.unwrap();
    let (_b_tx, mut b_rx) = acc.unwrap().unwrap();
    let (conn, acc) = tokio::join!(c_client.connect(), d_server.accept());
    let (mut c_tx, _c_rx) = conn.unwrap();
    let (_d_tx, mut d_rx) = acc.unwrap().unwrap();

    exec::spawn(async move {
        let _ = b_rx.forward(&mut c_tx).await;
    });

    // D accepts everything and echoes one message.
    exec::spawn(async move {
        while let Ok(Some(received)) = d_rx.recv_any().await {
            if let Received::Requests(reqs) = received {
                for req in reqs {
                    let (mut tx, mut rx) = req.accept().await.unwrap();
                    exec::spawn(async move {
                        while let Ok(Some(data)) = rx.recv().await {
                            let _ = tx.send(data.into()).await;
                        }
                    });
                }
            }
        }
    });

    let port = a_tx.port_allocator().allocate().await;
    let mut connects = a_tx.connect(vec![port.into()], true).await.unwrap();
    let (mut tx, mut rx) = timeout(Duration::from_secs(3), connects.pop().unwrap())
        .await
        .expect("port request sent over a forwarded port was never answered")
        .expect("port request sent over a forwarded port failed");

    tx.send(Bytes::from_static(b"hello")).await.unwrap();
    let echo: Vec<u8> = timeout(Duration::from_secs(3), rx.recv()).await.unwrap().unwrap().unwrap().into();
    assert_eq!(echo, b"hello");
}
