// Replay for the OPEN known finding  property=C10  obligation U15_client.Client::connect/connect_honours_the_configured_exhaustion_policy
// How to run: save as remoc/tests/chmux/hunt_d1_ports_exhausted.rs, add `mod hunt_d1_ports_exhausted;` to remoc/tests/chmux/mod.rs,  cargo test --offline -p remoc --test tests chmux::hunt_d1
// Observed on the unchanged tree: Cfg { max_ports: 1, ports_exhausted: PortsExhausted::Fail }: one port open, a second client.connect()
// never returns (expected Err(LocalPortsExhausted)); with Wait(Some(1 s)) it still waits after one hour of virtual time.  The field
// Cfg::ports_exhausted is read nowhere: Client::connect hard-codes connect_ext(None, true).

//! Defect hunting, round 2: Cfg::ports_exhausted is ignored

#![allow(unused_imports, dead_code)]

use bytes::Bytes;
use futures::{future::try_join, stream::StreamExt};
use std::time::Duration;

use crate::loop_transport;
use remoc::{
    chmux::{self, ConnectError, PortsExhausted},
    exec,
};

fn base_cfg() -> chmux::Cfg {
    chmux::Cfg { connection_timeout: None, ..Default::default() }
}

/// C10: the configured default exhaustion policy `PortsExhausted::Fail` makes a connect request
/// fail when all local ports are in use.
#[tokio::test]
async fn ports_exhausted_fail_policy() {
    crate::init();

    let cfg = chmux::Cfg { max_ports: 1, ports_exhausted: PortsExhausted::Fail, ..base_cfg() };

    loop_transport!(0, a_tx, a_rx, b_tx, b_rx);
    let ((a_mux, a_client, _a_server), (b_mux, _b_client, mut b_server)) =
        try_join(chmux::ChMux::new(cfg.clone(), a_tx, a_rx), chmux::ChMux::new(base_cfg(), b_tx, b_rx))
            .await
            .unwrap();
    exec::spawn(a_mux.run());
    exec::spawn(b_mux.run());

    exec::spawn(async move {
        let mut ports = Vec::new();
        while let Some(port) = b_server.accept().await.unwrap() {
            ports.push(port);
        }
    });

    // Uses the only local port.
    let _port = a_client.connect().await.unwrap();

    // The policy is to fail.
    let res = tokio::time::timeout(Duration::from_secs(2), a_client.connect()).await;
    match res {
        Ok(Err(ConnectError::LocalPortsExhausted)) => (),
        Ok(other) => panic!("unexpected connect result: {:?}", other.map(|_| ())),
        Err(_) => panic!("connect hangs although the configured policy for exhausted ports is Fail"),
    }
}

/// C10: the configured default exhaustion policy `PortsExhausted::Wait(Some(d))` makes a connect
/// request fail after d when all local ports stay in use.
#[tokio::test(start_paused = true)]
async fn ports_exhausted_wait_timeout_policy() {
    crate::init();

    let cfg = chmux::Cfg {
        max_ports: 1,
        ports_exhausted: PortsExhausted::Wait(Some(Duration::from_secs(1))),
        ..base_cfg()
    };

    loop_transport!(0, a_tx, a_rx, b_tx, b_rx);
    let ((a_mux, a_client, _a_server), (b_mux, _b_client, mut b_server)) =
        try_join(chmux::ChMux::new(cfg.clone(), a_tx, a_rx), chmux::ChMux::new(base_cfg(), b_tx, b_rx))
            .await
            .unwrap();
    exec::spawn(a_mux.run());
    exec::spawn(b_mux.run());

    exec::spawn(async move {
        let mut ports = Vec::new();
        while let Some(port) = b_server.accept().await.unwrap() {
            ports.push(port);
        }
    });

    let _port = a_client.connect().await.unwrap();

    let res = tokio::time::timeout(Duration::from_secs(3600), a_client.connect()).await;
    match res {
        Ok(Err(ConnectError::LocalPortsExhausted)) => (),
        Ok(other) => panic!("unexpected connect result: {:?}", other.map(|_| ())),
        Err(_) => panic!("connect still waits after one hour although the configured policy is to wait for 1 s"),
    }
}
