// Replay for the repaired defect  property=C19 (and C12)  fix d665ef7 "cancel a remote function when its caller is gone"
// obligations: U20_rfn.{RFnMut::provider_task::request_arm, RFn::provider_task::request_task, RFnOnce::provider_task::request_arm}/*_runs_*at_most_once_and_answers_its_own_caller
// How to run: save as remoc/tests/rfn/cancel.rs, add `mod cancel;` to remoc/tests/rfn/mod.rs, then
//     cargo test --offline -p remoc --test tests rfn::cancel
// Before the fix all 5 tests fail: the function keeps running after the caller dropped the call (RFn, RFnMut, RFnOnce) or
// lost its connection, one abandoned RFnMut call blocks the provider for good, abandoned RFn calls keep their permits.
//! The module documentation of `remoc::rfn` states under "Cancellation":
//! "If the caller drops the future while it is executing or the connection is interrupted
//! the remote function is automatically cancelled at the next `await` point."
//!
//! These tests drop the future of a call that is executing and demand that the
//! function on the providing side is cancelled and the provider keeps serving.

use std::{
    sync::{
        Arc,
        atomic::{AtomicBool, AtomicUsize, Ordering},
    },
    time::Duration,
};

use remoc::{
    exec,
    rfn::{CallError, RFn, RFnMut, RFnOnce},
};
use tokio::time::timeout;

use crate::loop_channel;

struct SetOnDrop(Arc<AtomicBool>);

impl Drop for SetOnDrop {
    fn drop(&mut self) {
        self.0.store(true, Ordering::SeqCst);
    }
}

async fn wait_flag(flag: &AtomicBool, what: &str) {
    timeout(Duration::from_secs(5), async {
        while !flag.load(Ordering::SeqCst) {
            tokio::time::sleep(Duration::from_millis(10)).await;
        }
    })
    .await
    .unwrap_or_else(|_| panic!("timeout waiting for {what}"));
}

/// Module documentation of rfn: "If the caller drops the future while it is executing or the
/// connection is interrupted the remote function is automatically cancelled at the next await point."
#[tokio::test]
async fn rfn_call_dropped_is_cancelled() {
    crate::init();
    let ((mut a_tx, _a_rx), (_b_tx, mut b_rx)) = loop_channel::<RFn<_, Result<u32, CallError>>>().await;

    let started = Arc::new(AtomicBool::new(false));
    let dropped = Arc::new(AtomicBool::new(false));
    let (s, d) = (started.clone(), dropped.clone());
    let rfn = RFn::new_1(move |arg: u32| {
        let (s, d) = (s.clone(), d.clone());
        async move {
            if arg == 0 {
                let _g = SetOnDrop(d);
                s.store(true, Ordering::SeqCst);
                tokio::time::sleep(Duration::from_secs(3600)).await;
            }
            Ok(arg)
        }
    });
    a_tx.send(rfn).await.unwrap();
    let rfn = b_rx.recv().await.unwrap().unwrap();

    {
        let call = rfn.call(0);
        tokio::pin!(call);
        tokio::select! {
            _ = &mut call => panic!("finished"),
            () = wait_flag(&started, "start") => (),
        }
    }

    wait_flag(&dropped, "cancellation of remote function after caller dropped the call future").await;
    assert_eq!(timeout(Duration::from_secs(5), rfn.call(5)).await.expect("wedged").unwrap(), 5);
}

/// Abandoned calls must not use up the concurrency limit for ever.
#[tokio::test]
async fn rfn_abandoned_calls_do_not_use_up_concurrency_limit() {
    crate::init();
    let ((mut a_tx, _a_rx), (_b_tx, mut b_rx)) = loop_channel::<RFn<_, Result<u32, CallError>>>().await;

    let running = Arc::new(AtomicUsize::new(0));
    let r = running.clone();
    let (rfn, provider) = RFn::provided_1(move |arg: u32| {
        let r = r.clone();
        async move {
            if arg == 0 {
                r.fetch_add(1, Ordering::SeqCst);
                tokio::time::sleep(Duration::from_secs(3600)).await;
            }
            Ok(arg)
        }
    });
    provider.set_max_concurrency(2);
    a_tx.send(rfn).await.unwrap();
    let rfn = b_rx.recv().await.unwrap().unwrap();

    for _ in 0..2 {
        let rfn = rfn.clone();
        let before = running.load(Ordering::SeqCst);
        let call = exec::spawn(async move { rfn.call(0).await });
        timeout(Duration::from_secs(5), async {
            while running.load(Ordering::SeqCst) == before {
                tokio::time::sleep(Duration::from_millis(10)).await;
            }
        })
        .await
        .expect("call did not start");
        call.abort();
        let _ = call.await;
    }

    tokio::time::sleep(Duration::from_millis(300)).await;
    assert_eq!(
        timeout(Duration::from_secs(5), rfn.call(5)).await.expect("remote function wedged by abandoned calls").unwrap(),
        5
    );
    provider.keep();
}

#[tokio::test]
async fn rfn_mut_call_dropped_is_cancelled() {
    crate::init();
    let ((mut a_tx, _a_rx), (_b_tx, mut b_rx)) = loop_channel::<RFnMut<_, Result<u32, CallError>>>().await;

    let started = Arc::new(AtomicBool::new(false));
    let dropped = Arc::new(AtomicBool::new(false));
    let (s, d) = (started.clone(), dropped.clone());
    let mut sum = 0;
    let rfn = RFnMut::new_1(move |arg: u32| {
        let (s, d) = (s.clone(), d.clone());
        sum += arg;
        async move {
            if arg == 0 {
                let _g = SetOnDrop(d);
                s.store(true, Ordering::SeqCst);
                tokio::time::sleep(Duration::from_secs(3600)).await;
            }
            Ok(sum)
        }
    });
    a_tx.send(rfn).await.unwrap();
    let mut rfn = b_rx.recv().await.unwrap().unwrap();

    assert_eq!(rfn.call(3).await.unwrap(), 3);

    {
        let call = rfn.call(0);
        tokio::pin!(call);
        tokio::select! {
            _ = &mut call => panic!("finished"),
            () = wait_flag(&started, "start") => (),
        }
    }

    // The abandoned invocation must be cancelled so that the next call is served.
    let next = timeout(Duration::from_secs(5), rfn.call(5)).await;
    assert!(dropped.load(Ordering::SeqCst), "remote function was not cancelled after caller dropped the call future");
    assert_eq!(next.expect("RFnMut wedged for ever by an abandoned call").unwrap(), 8);
}

#[tokio::test]
async fn rfn_once_call_dropped_is_cancelled() {
    crate::init();
    let ((mut a_tx, _a_rx), (_b_tx, mut b_rx)) = loop_channel::<RFnOnce<_, Result<u32, CallError>>>().await;

    let started = Arc::new(AtomicBool::new(false));
    let dropped = Arc::new(AtomicBool::new(false));
    let (s, d) = (started.clone(), dropped.clone());
    let rfn = RFnOnce::new_1(move |arg: u32| async move {
        let _g = SetOnDrop(d);
        s.store(true, Ordering::SeqCst);
        tokio::time::sleep(Duration::from_secs(3600)).await;
        Ok(arg)
    });
    a_tx.send(rfn).await.unwrap();
    let rfn = b_rx.recv().await.unwrap().unwrap();

    {
        let call = rfn.call(0);
        tokio::pin!(call);
        tokio::select! {
            _ = &mut call => panic!("finished"),
            () = wait_flag(&started, "start") => (),
        }
    }

    wait_flag(&dropped, "cancellation of remote function after caller dropped the call future").await;
}

/// "... or the connection is interrupted the remote function is automatically cancelled"
#[tokio::test]
async fn rfn_connection_lost_is_cancelled() {
    crate::init();
    let ((mut a_tx, a_rx), (b_tx, mut b_rx), drop_rx) =
        crate::droppable_loop_channel::<RFn<_, Result<u32, CallError>>>().await;

    let started = Arc::new(AtomicBool::new(false));
    let dropped = Arc::new(AtomicBool::new(false));
    let (s, d) = (started.clone(), dropped.clone());
    let rfn = RFn::new_1(move |arg: u32| {
        let (s, d) = (s.clone(), d.clone());
        async move {
            let _g = SetOnDrop(d);
            s.store(true, Ordering::SeqCst);
            tokio::time::sleep(Duration::from_secs(3600)).await;
            Ok(arg)
        }
    });
    a_tx.send(rfn).await.unwrap();
    let rfn = b_rx.recv().await.unwrap().unwrap();

    let call = exec::spawn(async move { rfn.call(0).await });
    wait_flag(&started, "start").await;

    // interrupt the connection
    drop(drop_rx);
    drop((a_tx, a_rx, b_tx, b_rx));

    let res = timeout(Duration::from_secs(5), call).await.expect("caller wedged").unwrap();
    assert!(res.is_err());
    wait_flag(&dropped, "cancellation of remote function after the connection was interrupted").await;
}

