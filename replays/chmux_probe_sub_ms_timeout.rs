// Replay for the repaired defect  property=C06 (also C09)  fix 7e7055d "chmux Cfg::check rejects a connection timeout below one millisecond"
// obligation: U5_msg.Cfg::check/check_enforces_limits (cfg_local_ok now demands Some(d) ==> d >= 1 ms) and
//             U5_msg.lemma_announced_timeout/configured_timeout_is_announced_as_a_timeout
// How to run: save as remoc/tests/chmux/hunt_d2_sub_ms_timeout.rs, add `mod hunt_d2_sub_ms_timeout;` to remoc/tests/chmux/mod.rs,
//     cargo test --offline -p remoc --test tests sub_millisecond
// Before the fix: both endpoints with connection_timeout 900 us; the timeout is written as whole milliseconds (0) and 0 is read as
// "no timeout", so the peer sends no pings while the local receive task still enforces 900 us: the idle, healthy connection dies with
// StreamClosed / Timeout (dispatcher A terminated on an idle connection).  After the fix ChMux::new panics for this configuration
// ("connection timeout must be at least one millisecond", the documented reaction to an invalid Cfg), so the test now ends at that panic.

//! Defect hunting, round 2: connection timeout below one millisecond

#![allow(unused_imports, dead_code)]

use bytes::Bytes;
use futures::{future::try_join, stream::StreamExt};
use std::time::Duration;

use crate::loop_transport;
use remoc::{
    chmux::{self, ConnectError, PortsExhausted},
    exec,
};

fn base_cfg() -> chmux::Cfg {
    chmux::Cfg { connection_timeout: None, ..Default::default() }
}

/// C06: an idle but healthy connection is never torn down by the timeout,
/// also when the timeout is below one millisecond.
#[tokio::test(start_paused = true)]
async fn sub_millisecond_connection_timeout_idle() {
    crate::init();

    let cfg = chmux::Cfg { connection_timeout: Some(Duration::from_micros(900)), ..Default::default() };

    loop_transport!(0, a_tx, a_rx, b_tx, b_rx);
    let ((a_mux, a_client, _a_server), (b_mux, _b_client, mut b_server)) =
        try_join(chmux::ChMux::new(cfg.clone(), a_tx, a_rx), chmux::ChMux::new(cfg.clone(), b_tx, b_rx))
            .await
            .unwrap();
    let a = exec::spawn(a_mux.run());
    let b = exec::spawn(b_mux.run());

    let acc = exec::spawn(async move { b_server.accept().await.unwrap().unwrap() });
    let (mut tx, _rx) = a_client.connect().await.unwrap();
    let (_btx, mut brx) = acc.await.unwrap();

    tokio::time::sleep(Duration::from_secs(1)).await;

    assert!(!a.is_finished(), "dispatcher A terminated on an idle connection: {:?}", a.await);
    assert!(!b.is_finished(), "dispatcher B terminated on an idle connection: {:?}", b.await);

    tx.send(Bytes::from_static(b"hi")).await.unwrap();
    assert_eq!(Bytes::from(brx.recv().await.unwrap().unwrap()), Bytes::from_static(b"hi"));
}

/// Control for `sub_millisecond_connection_timeout_idle`: same scenario with 2 ms.
#[tokio::test(start_paused = true)]
async fn control_two_millisecond_connection_timeout_idle() {
    crate::init();

    let cfg = chmux::Cfg { connection_timeout: Some(Duration::from_millis(2)), ..Default::default() };

    loop_transport!(0, a_tx, a_rx, b_tx, b_rx);
    let ((a_mux, a_client, _a_server), (b_mux, _b_client, mut b_server)) =
        try_join(chmux::ChMux::new(cfg.clone(), a_tx, a_rx), chmux::ChMux::new(cfg.clone(), b_tx, b_rx))
            .await
            .unwrap();
    let a = exec::spawn(a_mux.run());
    let b = exec::spawn(b_mux.run());

    let acc = exec::spawn(async move { b_server.accept().await.unwrap().unwrap() });
    let (mut tx, _rx) = a_client.connect().await.unwrap();
    let (_btx, mut brx) = acc.await.unwrap();

    tokio::time::sleep(Duration::from_secs(1)).await;

    assert!(!a.is_finished(), "dispatcher A terminated on an idle connection: {:?}", a.await);
    assert!(!b.is_finished(), "dispatcher B terminated on an idle connection: {:?}", b.await);

    tx.send(Bytes::from_static(b"hi")).await.unwrap();
    assert_eq!(Bytes::from(brx.recv().await.unwrap().unwrap()), Bytes::from_static(b"hi"));
}
#[cfg(not(target_family = "wasm"))]
mod hunt_d2_sub_ms_timeout;

