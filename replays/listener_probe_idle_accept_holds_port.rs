// Replay for the OPEN known finding  property=C10  obligation U11_listener.Listener::accept/a_listener_waiting_for_a_request_holds_no_local_port
// How to run: the file below goes to the path named in the marker (plus its `mod` line);  cargo test --offline -p remoc --test tests hunt_h
// Observed on the unchanged tree: endpoint B has max_ports = 2 and its listener sits in accept(); nobody connects to B.  B's first
// connect_ext(None, false) succeeds, the second is refused locally with LocalPortsExhausted although only ONE port is open: accept()
// allocates a local port number before a request exists and holds it while it waits in inspect().

// ===== file: remoc/tests/chmux/hunt_h_idle_accept.rs =====
//! Port-open requests: an idle listener and the port limit.

use futures::{future::try_join, stream::StreamExt};
use std::time::Duration;

use crate::loop_transport;
use remoc::{
    chmux, exec,
};

type MuxResult = Result<(), chmux::ChMuxError<futures::channel::mpsc::SendError, std::io::Error>>;

struct Endpoint {
    client: chmux::Client,
    listener: chmux::Listener,
    mux: exec::task::JoinHandle<MuxResult>,
}

async fn connect(a_cfg: chmux::Cfg, b_cfg: chmux::Cfg) -> (Endpoint, Endpoint) {
    loop_transport!(0, a_tx, a_rx, b_tx, b_rx);
    let ((a_mux, a_client, a_listener), (b_mux, b_client, b_listener)) =
        try_join(chmux::ChMux::new(a_cfg, a_tx, a_rx), chmux::ChMux::new(b_cfg, b_tx, b_rx)).await.unwrap();
    let a_mux = exec::spawn(a_mux.run());
    let b_mux = exec::spawn(b_mux.run());
    (
        Endpoint { client: a_client, listener: a_listener, mux: a_mux },
        Endpoint { client: b_client, listener: b_listener, mux: b_mux },
    )
}

fn small_cfg(connect_queue: u16, max_ports: u32) -> chmux::Cfg {
    chmux::Cfg { connect_queue, max_ports, connection_timeout: None, ..Default::default() }
}

/// A listener that waits for requests has no port open. With `max_ports` = 2 an endpoint
/// whose listener is idle in `accept()` must still be able to open two ports itself.
#[tokio::test]
async fn idle_accept_does_not_use_up_a_port() {
    crate::init();

    let (a, b) = connect(small_cfg(8, 100), small_cfg(8, 2)).await;
    let Endpoint { client: b_client, listener: mut b_listener, mux: _b_mux } = b;
    let Endpoint { client: _a_client, listener: mut a_listener, mux: _a_mux } = a;

    // B listens; nobody connects to it.
    let b_accept = exec::spawn(async move {
        let _ = b_listener.accept().await;
    });

    // A accepts everything.
    exec::spawn(async move {
        let mut ports = Vec::new();
        while let Ok(Some(port)) = a_listener.accept().await {
            ports.push(port);
        }
    });

    tokio::time::sleep(Duration::from_millis(100)).await;

    // B opens two ports without waiting.
    let first = b_client.connect_ext(None, false).await.expect("first: local").await.expect("first");
    let second = match b_client.connect_ext(None, false).await {
        Ok(connect) => connect.await.expect("second"),
        Err(err) => panic!("second port-open request with no port open but the first: {err:?}"),
    };

    drop((first, second));
    b_accept.abort();
}
