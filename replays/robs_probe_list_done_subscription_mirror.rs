// Replay for the repaired defect  property=C13  fix 581b635 "mirror of a list subscription that has already delivered its done event reports done"
// (residue of the earlier repair 3f3c8ee, which fixed `complete` but not `done`)
// obligation: U7_list.MirrorTask::mirror_task_outcome/list_mirror_task_never_ends_without_saying_done_or_failed
// How to run: save as remoc/tests/robs/list_done_sub_mirror.rs, add `mod list_done_sub_mirror;` to remoc/tests/robs/mod.rs,
//     cargo test --offline -p remoc --test tests list_done_sub_mirror
// Before the fix: sub = list.subscribe(); list.done(); sub.recv() -> InitialComplete; sub.recv() -> Done; sub.mirror(10) (locally or after
// sending sub to another endpoint): mirror.done() never returns (it busy-loops: the task has ended, is_done() stays false).

use std::time::Duration;

use remoc::robs::list::{ListEvent, ObservableList};

use crate::loop_channel;

/// C13: a mirror reports completion exactly when the collection was marked done.
/// A list subscription that has delivered Done and is then mirrored.
#[tokio::test]
async fn list_mirror_of_done_subscription() {
    crate::init();

    let mut obs: ObservableList<u32> = ObservableList::new();
    let mut sub = obs.subscribe();
    obs.done();
    assert_eq!(sub.recv().await.unwrap(), Some(ListEvent::InitialComplete));
    assert_eq!(sub.recv().await.unwrap(), Some(ListEvent::Done));
    assert!(sub.is_done());

    let mut mirror = sub.mirror(10);
    tokio::time::timeout(Duration::from_secs(2), mirror.done()).await.expect("mirror never done").unwrap();
}

/// Forwarded variant of list_mirror_of_done_subscription.
#[tokio::test]
async fn list_mirror_of_done_subscription_forwarded() {
    use remoc::robs::list::ListSubscription;
    crate::init();
    let ((mut a_tx, _), (_, mut b_rx)) = loop_channel::<ListSubscription<u32>>().await;

    let mut obs: ObservableList<u32> = ObservableList::new();
    let mut sub = obs.subscribe();
    obs.done();
    assert_eq!(sub.recv().await.unwrap(), Some(ListEvent::InitialComplete));
    assert_eq!(sub.recv().await.unwrap(), Some(ListEvent::Done));
    assert!(sub.is_done());

    assert!(a_tx.send(sub).await.is_ok());
    let sub = b_rx.recv().await.unwrap().unwrap();
    assert!(sub.is_done());

    let mut mirror = sub.mirror(10);
    tokio::time::timeout(Duration::from_secs(2), mirror.done()).await.expect("mirror never done").unwrap();
}
