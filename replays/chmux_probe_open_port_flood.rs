// Replay for the repaired defect  property=C08 (also C10)  fix 4c29c61 "chmux limits unanswered OpenPort requests also without a listener"
// obligation: U4_mux.ChMux::handle_received_msg/step_unanswered_open_requests_stay_within_the_announced_queue
// How to run: save as remoc/tests/chmux/hunt_d4_open_port_flood.rs, add `mod hunt_d4_open_port_flood;` to remoc/tests/chmux/mod.rs,
//     cargo test --offline -p remoc --test tests chmux::hunt_d4 -- --nocapture
// Before the fix: the Listener is dropped; a raw peer sends 20000 OpenPort frames with distinct ports and reads no reply: all 20000 are
// taken, 19967 tasks stay alive, no protocol error (connect_queue announced: 128).  With a live listener the dispatcher stopped after 130.

//! Defect hunting, round 2: open port requests are unlimited once the listener is dropped

#![allow(unused_imports, dead_code)]

use bytes::Bytes;
use futures::{future::try_join, stream::StreamExt};
use std::time::Duration;

use crate::loop_transport;
use remoc::{
    chmux::{self, ConnectError, PortsExhausted},
    exec,
};

fn base_cfg() -> chmux::Cfg {
    chmux::Cfg { connection_timeout: None, ..Default::default() }
}

mod raw {
    use bytes::Bytes;

    pub fn hello() -> Bytes {
        let mut v = vec![2u8];
        v.extend_from_slice(b"CHMUX\0");
        v.push(remoc::chmux::PROTOCOL_VERSION);
        v.extend_from_slice(&0u64.to_le_bytes());
        v.extend_from_slice(&16_384u32.to_le_bytes());
        v.extend_from_slice(&524_288u32.to_le_bytes());
        v.extend_from_slice(&128u16.to_le_bytes());
        v.into()
    }

    pub fn open_port(port: u32) -> Bytes {
        let mut v = vec![4u8];
        v.extend_from_slice(&port.to_le_bytes());
        v.push(0);
        v.into()
    }

    pub const MSG_LISTENER_FINISH: u8 = 14;
}

/// Sends `n` OpenPort requests from a peer that never reads a reply and returns how many of them
/// the endpoint took from the transport, the number of tasks alive afterwards and whether the
/// dispatcher has terminated.
async fn open_port_flood(drop_listener: bool, n: u32) -> (u32, usize, bool) {
    use futures::SinkExt;

    let cfg = chmux::Cfg { connection_timeout: None, connect_queue: 128, ..Default::default() };

    let (mut p_tx, e_rx) = futures::channel::mpsc::channel::<Bytes>(0);
    let (e_tx, mut p_rx) = futures::channel::mpsc::channel::<Bytes>(0);
    let e_rx = e_rx.map(Ok::<_, std::io::Error>);

    let new = exec::spawn(chmux::ChMux::new(cfg, e_tx, e_rx));
    p_tx.send(raw::hello()).await.unwrap();
    let _reset = p_rx.next().await.unwrap();
    let _hello = p_rx.next().await.unwrap();
    let (mux, _client, listener) = new.await.unwrap().unwrap();
    let run = exec::spawn(mux.run());

    let _listener = if drop_listener {
        drop(listener);
        // Wait until the endpoint has announced that its listener is gone.
        loop {
            let frame = p_rx.next().await.unwrap();
            if frame[0] == raw::MSG_LISTENER_FINISH {
                break;
            }
        }
        None
    } else {
        Some(listener)
    };

    let tasks_before = tokio::runtime::Handle::current().metrics().num_alive_tasks();

    // From now on the peer reads nothing.
    let mut taken = 0;
    for port in 0..n {
        match tokio::time::timeout(Duration::from_secs(1), p_tx.send(raw::open_port(port))).await {
            Ok(Ok(())) => taken += 1,
            Ok(Err(_)) => break,
            Err(_) => break,
        }
    }

    tokio::time::sleep(Duration::from_secs(1)).await;
    let tasks_after = tokio::runtime::Handle::current().metrics().num_alive_tasks();
    let finished = run.is_finished();
    if finished {
        println!("dispatcher: {:?}", run.await);
    }
    (taken, tasks_after.saturating_sub(tasks_before), finished)
}

/// Control: with a listener that does not accept, the endpoint stops a peer that exceeds
/// the advertised connect queue.
#[tokio::test(start_paused = true)]
async fn control_open_port_flood_with_listener() {
    crate::init();
    let (taken, tasks, finished) = open_port_flood(false, 20_000).await;
    println!("listener alive: {taken} requests taken, {tasks} tasks, dispatcher finished: {finished}");
    assert!(finished, "dispatcher must terminate with a protocol error");
    assert!(taken <= 200);
}

/// C08: a peer that sends open port requests without ever reading the replies, after the local
/// listener has been dropped. The endpoint advertised a connect queue of 128 requests; it must
/// stop the peer (protocol error) or stop reading, instead of buffering a reply task per request.
#[tokio::test(start_paused = true)]
async fn open_port_flood_after_listener_dropped() {
    crate::init();
    let (taken, tasks, finished) = open_port_flood(true, 20_000).await;
    println!("listener dropped: {taken} requests taken, {tasks} tasks, dispatcher finished: {finished}");
    assert!(
        finished || taken <= 10 * 128,
        "endpoint took {taken} unanswered open port requests (advertised connect queue: 128) and holds \
         {tasks} tasks for them"
    );
}
