// Replay for the repaired defect  property=C10 (C07)  fix d647623 "the listener hands out every request that was sent before the remote client was dropped"
// obligations: U11_listener.Listener::inspect/listener_hands_out_every_request_sent_before_the_client_was_dropped,
//              U11_listener.Listener::client_dropped/listener_closes_only_after_both_queues_delivered_their_marker
// Two independent demonstrations (from two defect-hunting sub-agents).  How to run: save the first part as
// remoc/tests/chmux/hunt_d2.rs and the second as remoc/tests/chmux/request_before_client_drop.rs, add the two `mod` lines to
// remoc/tests/chmux/mod.rs, then  cargo test --offline -p remoc --test tests hunt_d2 request_before
// Before the fix: connect_ext, sent(), drop the client; the peer's accept() returns Ok(None) in a large fraction of runs
// (tokio::select! picks the queue that only holds the marker) and the request is never answered while the listener lives.

// ======== part 1: remoc/tests/chmux/hunt_d2.rs ========
//! Defect hunting test for the channel multiplexer (D2).
#![allow(unused_imports)]

use bytes::Bytes;
use futures::{future::try_join, stream::StreamExt};
use std::time::Duration;

use crate::loop_transport;
use remoc::{
    chmux::{self, PortsExhausted, Received, RecvChunkError},
    exec,
    exec::time::{sleep, timeout},
};

fn hunt_cfg() -> chmux::Cfg {
    chmux::Cfg {
        connection_timeout: None,
        max_ports: 20,
        ports_exhausted: PortsExhausted::Fail,
        max_data_size: 1_000_000,
        max_received_ports: 100,
        chunk_size: 16,
        receive_buffer: 64,
        shared_send_queue: 16,
        connect_queue: 4,
        ..Default::default()
    }
}

type End = (chmux::Client, chmux::Listener);

async fn mux_pair(a_cfg: chmux::Cfg, b_cfg: chmux::Cfg) -> (End, End) {
    loop_transport!(0, a_tx, a_rx, b_tx, b_rx);
    let ((a_mux, a_client, a_server), (b_mux, b_client, b_server)) =
        try_join(chmux::ChMux::new(a_cfg, a_tx, a_rx), chmux::ChMux::new(b_cfg, b_tx, b_rx)).await.unwrap();
    exec::spawn(async move {
        let _ = a_mux.run().await;
    });
    exec::spawn(async move {
        let _ = b_mux.run().await;
    });
    ((a_client, a_server), (b_client, b_server))
}

/// A connect request that was sent (and reported as sent) before the client was dropped
/// must still be handed to the listener; the listener may only report the end of requests
/// after all of them have been delivered.
async fn request_before_client_drop(wait: bool) {
    let mut lost = 0;
    let mut failed = 0;
    const N: usize = 40;

    for _ in 0..N {
        let ((a_client, _a_server), (_b_client, mut b_server)) = mux_pair(hunt_cfg(), hunt_cfg()).await;

        let mut connect = a_client.connect_ext(None, wait).await.unwrap();
        connect.sent().await;
        drop(a_client);

        // Let the OpenPort and ClientFinish messages arrive at B.
        sleep(Duration::from_millis(20)).await;

        let accepted = timeout(Duration::from_secs(3), b_server.accept()).await.unwrap().unwrap();
        if accepted.is_none() {
            lost += 1;
            // The listener claims that no more requests can arrive, so it is dropped like
            // `while let Some(..) = listener.accept().await?` loops do.
            drop(b_server);
        }

        let res = timeout(Duration::from_secs(3), connect).await.unwrap();
        if res.is_err() {
            failed += 1;
        }
    }

    assert!(
        lost == 0 && failed == 0,
        "wait={wait}: in {lost} of {N} runs the listener reported the end of requests while a request sent          before the client was dropped was still unanswered; {failed} of these requests failed"
    );
}

#[tokio::test]
async fn request_before_client_drop_is_delivered_no_wait() {
    crate::init();
    request_before_client_drop(false).await;
}

#[tokio::test]
async fn request_before_client_drop_is_delivered_wait() {
    crate::init();
    request_before_client_drop(true).await;
}

// ======== part 2: remoc/tests/chmux/request_before_client_drop.rs ========
//! A connect request that was sent before the client was dropped must still be answered.

use futures::{future::try_join, stream::StreamExt};
use std::time::Duration;
use tokio::time::timeout;

use crate::loop_transport;
use remoc::{
    chmux::{Cfg, ChMux},
    exec,
};

fn cfg() -> Cfg {
    Cfg { connection_timeout: None, max_ports: 4, connect_queue: 2, ..Default::default() }
}

/// Endpoint A issues a connect request, waits until it has been sent and then drops its (last) client.
/// Endpoint B accepts until its listener reports that no more requests can arrive.
///
/// The request was sent before the ClientFinish notification, so the listener must hand it out
/// before it reports the end; otherwise the request stays queued (and its local port at A
/// allocated, its connect pending) for as long as B keeps its listener.
#[tokio::test]
async fn request_before_client_drop_is_served() {
    crate::init();

    for wait in [true, false] {
        for round in 0..20 {
            loop_transport!(0, a_tx, a_rx, b_tx, b_rx);
            let ((a_mux, a_client, a_listener), (b_mux, b_client, mut b_listener)) =
                try_join(ChMux::new(cfg(), a_tx, a_rx), ChMux::new(cfg(), b_tx, b_rx)).await.unwrap();
            let a = exec::spawn(a_mux.run());
            let b = exec::spawn(b_mux.run());
            drop(a_listener);
            drop(b_client);
            let a_alloc = a_client.port_allocator();

            let mut connect = a_client.connect_ext(None, wait).await.unwrap();
            connect.sent().await;
            drop(a_client);

            // Let the request and the notification that the client is gone arrive at B.
            tokio::time::sleep(Duration::from_millis(50)).await;

            let mut accepted = Vec::new();
            while let Some(tx_rx) =
                timeout(Duration::from_secs(5), b_listener.accept()).await.expect("accept hangs").unwrap()
            {
                accepted.push(tx_rx);
            }

            // The listener said that nothing more will come, so nothing must be left behind.
            let connected = timeout(Duration::from_secs(1), &mut connect).await;
            assert!(
                accepted.len() == 1 && matches!(connected, Ok(Ok(_))),
                "wait={wait} round {round}: listener reported the end of requests after accepting {} of 1 \
                 requests; connect result: {connected:?}; port allocator of requester: {a_alloc:?}",
                accepted.len(),
            );

            drop(connected);
            drop(accepted);
            drop(b_listener);
            timeout(Duration::from_secs(5), a).await.expect("a hangs").unwrap().expect("a failed");
            timeout(Duration::from_secs(5), b).await.expect("b hangs").unwrap().expect("b failed");
        }
    }
}
