// Replay for the repaired defect  property=C11  fix a83ad71 "mpsc Sender::capacity is zero once the sender reports the channel closed"
// obligation: U17_mpsc_loops.Sender::capacity/a_handle_that_reports_the_channel_closed_reports_no_capacity
// How to run: save as remoc/tests/rch/mpsc_r8s_cap.rs, add `mod mpsc_r8s_cap;` to remoc/tests/rch/mod.rs,  cargo test --offline -p remoc --test tests r8s_capacity
// Before the fix: after Receiver::close() or a drop of the receiver, is_closed() / closed_reason() are set and try_send / try_reserve refuse,
// but capacity() still returns 4 until the helper task has released the queue.

use remoc::rch::{ClosedReason, mpsc};

/// `Sender::capacity`: "Zero is returned when the channel has been closed or an error has occurred."
/// Since 5453417 a sender that reports the channel closed refuses all sends; capacity() must agree.
#[tokio::test]
async fn r8s_capacity_after_close() {
    crate::init();
    let (tx, mut rx) = mpsc::channel::<u32, remoc::codec::Default>(4);
    rx.close();
    assert!(tx.is_closed());
    assert_eq!(tx.closed_reason(), Some(ClosedReason::Closed));
    assert!(tx.try_send(1).is_err());
    assert!(tx.try_reserve().is_err());
    assert_eq!(tx.capacity(), 0, "closed channel that refuses every send reports free capacity");
}

/// Same after the receiver has been dropped.
#[tokio::test]
async fn r8s_capacity_after_drop() {
    crate::init();
    let (tx, rx) = mpsc::channel::<u32, remoc::codec::Default>(4);
    drop(rx);
    assert!(tx.is_closed());
    assert!(tx.try_send(1).is_err());
    assert_eq!(tx.capacity(), 0, "closed channel that refuses every send reports free capacity");
}
