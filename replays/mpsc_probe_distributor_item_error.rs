// Replay for the repaired defect  property=C04 (also C11)  fix a8203f1 "mpsc distributor goes on after an item that could not be received"
// obligation: U14_mpsc.Distributor::distribute::item_arm/distribution_goes_on_after_an_item_that_could_not_be_received
// How to run: save as remoc/tests/rch/j_distributor_item_error.rs, add `mod j_distributor_item_error;` to remoc/tests/rch/mod.rs,
//     cargo test --offline -p remoc --test tests j_distributor
// Before the fix: a remote sender sends 1, 13, 3 where 13 is refused by the item type's deserializer (a non-final receive error).  A plain
// receiver yields 1, a non-final Err, 3.  Through Receiver::distribute the subscriber gets 1 and then Ok(None): a clean end of stream, 3 is
// lost, the distributor task has exited and the live sender is told ClosedReason::Dropped.

//! An item that fails individually at the receiver (here: it cannot be deserialized) is a
//! non-final error of an mpsc channel: the items behind it are still delivered.
//! The same must hold when the receiver is distributed over subscribers.

use serde::{Deserialize, Serialize};
use std::time::Duration;

use crate::loop_channel;
use remoc::rch::mpsc;

/// A value that can be sent but is refused by the deserializer when it is 13.
#[derive(Clone, Debug, PartialEq, Eq, Serialize, Deserialize)]
#[serde(try_from = "u32", into = "u32")]
struct Picky(u32);

impl From<Picky> for u32 {
    fn from(p: Picky) -> u32 {
        p.0
    }
}

impl TryFrom<u32> for Picky {
    type Error = String;
    fn try_from(v: u32) -> Result<Self, String> {
        if v == 13 { Err("unlucky".to_string()) } else { Ok(Picky(v)) }
    }
}

/// Reference behaviour of the plain receiver.
#[tokio::test]
async fn plain_receiver_item_error_is_not_final() {
    crate::init();
    let ((mut a_tx, _), (_, mut b_rx)) = loop_channel::<mpsc::Sender<Picky>>().await;

    let (tx, mut rx) = mpsc::channel::<Picky, remoc::codec::Default>(16);
    a_tx.send(tx).await.unwrap();
    let remote_tx = b_rx.recv().await.unwrap().unwrap();

    for v in [1, 13, 3] {
        remote_tx.send(Picky(v)).await.unwrap();
    }
    drop(remote_tx);

    assert_eq!(rx.recv().await.unwrap(), Some(Picky(1)));
    let err = rx.recv().await.unwrap_err();
    assert!(!err.is_final(), "{err}");
    assert_eq!(rx.recv().await.unwrap(), Some(Picky(3)));
    assert_eq!(rx.recv().await.unwrap(), None);
}

#[tokio::test]
async fn distributor_item_error_does_not_lose_following_items() {
    crate::init();
    let ((mut a_tx, _), (_, mut b_rx)) = loop_channel::<mpsc::Sender<Picky>>().await;

    let (tx, rx) = mpsc::channel::<Picky, remoc::codec::Default>(16);
    a_tx.send(tx).await.unwrap();
    let remote_tx = b_rx.recv().await.unwrap().unwrap();

    let distributor = rx.distribute(true);
    let (mut sub_rx, _handle) = distributor.subscribe().await.unwrap();

    let mut sendings = Vec::new();
    for v in [1, 13, 3] {
        sendings.push(remote_tx.send(Picky(v)).await.unwrap());
    }
    // Every value was transmitted successfully as far as the sender can tell.
    for sending in sendings {
        sending.await.unwrap();
    }

    let mut received = Vec::new();
    let mut errors = 0;
    loop {
        match tokio::time::timeout(Duration::from_secs(2), sub_rx.recv()).await {
            Ok(Ok(Some(v))) => received.push(v),
            Ok(Ok(None)) => {
                println!("subscriber got end-of-stream");
                break;
            }
            Ok(Err(err)) => {
                println!("subscriber got error: {err}");
                errors += 1;
                if err.is_final() {
                    break;
                }
            }
            // Sender is still alive, nothing more to come.
            Err(_) => break,
        }
    }
    println!("received {received:?}, {errors} errors");

    assert_eq!(
        received,
        vec![Picky(1), Picky(3)],
        "the value behind the undeserializable one was lost (subscriber saw a clean end-of-stream)"
    );
    assert!(!remote_tx.is_closed(), "sender sees the channel as closed: {:?}", remote_tx.closed_reason());
}
