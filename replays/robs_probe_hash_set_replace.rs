// Replay for the repaired defect  property=C13  fix bb09683 "a mirrored hash set reproduces ObservableHashSet::replace"
// obligations: U7_hash_set.MirroredHashSetInner::handle_event/mirror_step, U7_hash_set.ObservableHashSet::insert/insert_effect
// How to run: append the test below to remoc/tests/robs/hash_set.rs, then  cargo test --offline -p remoc --test tests replace_is_mirrored
// Before the fix: element {id:1,"old"}, obs.replace({id:1,"new"}): the observed set holds "new", the mirror still "old".

/// Element whose identity (Eq/Hash) is `id` only, carrying a payload.
#[derive(Debug, Clone, serde::Serialize, serde::Deserialize)]
struct Tagged {
    id: u32,
    payload: String,
}

impl PartialEq for Tagged {
    fn eq(&self, other: &Self) -> bool {
        self.id == other.id
    }
}

impl Eq for Tagged {}

impl std::hash::Hash for Tagged {
    fn hash<H: std::hash::Hasher>(&self, state: &mut H) {
        self.id.hash(state)
    }
}

/// C13: `replace` replaces the stored element by the given one; the mirror must hold
/// exactly the observed set's contents afterwards.
#[cfg_attr(not(feature = "js"), tokio::test)]
#[cfg_attr(feature = "js", wasm_bindgen_test)]
async fn replace_is_mirrored() {
    let mut obs: ObservableHashSet<Tagged, remoc::codec::Default> = ObservableHashSet::new();
    obs.insert(Tagged { id: 1, payload: "old".to_string() });

    let mirror = obs.subscribe(1024).mirror(1000);

    let replaced = obs.replace(Tagged { id: 1, payload: "new".to_string() });
    assert_eq!(replaced.unwrap().payload, "old");
    obs.done();

    let key = Tagged { id: 1, payload: String::new() };
    assert_eq!(obs.get(&key).unwrap().payload, "new", "observed set itself");

    let mirrored = tokio::time::timeout(Duration::from_secs(10), async {
        loop {
            let mb = mirror.borrow().await.unwrap();
            if mb.is_done() {
                break mb.clone();
            }
            drop(mb);
            sleep(Duration::from_millis(20)).await;
        }
    })
    .await
    .expect("mirror did not become done");

    assert_eq!(mirrored.len(), 1);
    assert_eq!(
        mirrored.get(&key).unwrap().payload,
        obs.get(&key).unwrap().payload,
        "mirror holds a different element than the observed hash set after replace"
    );
}
