//! C08 replay: a hostile peer floods a port with PortData frames that carry no port at all, while the local
//! receiver is not reading.  Such a frame costs 0 credits, so the credit monitor never stops the peer and the
//! per-port queue grows without bound.  (The obligation that fails is U4_mux step_port_data: every frame queued
//! for a port must be charged at least one credit of the advertised receive buffer.)
use bytes::Bytes;
use futures::{SinkExt, StreamExt, channel::mpsc};
use std::time::Duration;
use tokio::time::timeout;

use remoc::chmux::{self, ChMux, ChMuxError};

const RECEIVE_BUFFER: u32 = 64;

fn hello(chunk_size: u32, port_receive_buffer: u32, connect_queue: u16) -> Bytes {
    let mut v = vec![2u8];
    v.extend_from_slice(b"CHMUX\0");
    v.push(chmux::PROTOCOL_VERSION);
    v.extend_from_slice(&0u64.to_le_bytes());
    v.extend_from_slice(&chunk_size.to_le_bytes());
    v.extend_from_slice(&port_receive_buffer.to_le_bytes());
    v.extend_from_slice(&connect_queue.to_le_bytes());
    v.into()
}
fn open_port(client_port: u32) -> Bytes {
    let mut v = vec![4u8];
    v.extend_from_slice(&client_port.to_le_bytes());
    v.push(0);
    v.into()
}
/// PortData { port, first, last: false, wait: false, ports: [], ids: None }
fn empty_port_data(port: u32, first: bool) -> Bytes {
    let mut v = vec![8u8];
    v.extend_from_slice(&port.to_le_bytes());
    v.push(u8::from(first));
    v.into()
}

#[tokio::test]
async fn hostile_empty_port_data_flood() {
    let cfg = chmux::Cfg { connection_timeout: None, chunk_size: 16, receive_buffer: RECEIVE_BUFFER, ..Default::default() };
    let (a_tx, mut h_rx) = mpsc::channel::<Bytes>(16);
    let (mut h_tx, a_rx) = mpsc::channel::<Bytes>(16);
    let a_rx = a_rx.map(Ok::<_, std::io::Error>);
    tokio::spawn(async move { while h_rx.next().await.is_some() {} });

    h_tx.send(hello(16, 1024, 4)).await.unwrap();
    let (mux, _client, mut listener) = ChMux::new(cfg, a_tx, a_rx).await.unwrap();
    let mux_task = tokio::spawn(mux.run());

    h_tx.send(open_port(7)).await.unwrap();
    let (_tx, mut rx) = listener.accept().await.unwrap().unwrap();
    let local_port = rx.local_port();

    let flood = tokio::spawn(async move {
        let mut sent = 0u32;
        for i in 0..100 * RECEIVE_BUFFER {
            if h_tx.send(empty_port_data(local_port, i == 0)).await.is_err() {
                break;
            }
            sent += 1;
        }
        (sent, h_tx)
    });

    let res = timeout(Duration::from_secs(10), mux_task)
        .await
        .expect("multiplexer kept queueing frames that cost no credit, without bound")
        .expect("multiplexer panicked");
    assert!(matches!(res, Err(ChMuxError::Protocol(_))), "unexpected multiplexer result: {res:?}");
    let (sent, _h_tx) = flood.await.unwrap();
    assert!(sent <= RECEIVE_BUFFER + 64, "endpoint accepted {sent} frames with a receive buffer of {RECEIVE_BUFFER}");
    let res = timeout(Duration::from_secs(5), rx.recv()).await.expect("receiver hangs");
    assert!(res.is_err(), "receiver must observe multiplexer failure: {res:?}");
}
