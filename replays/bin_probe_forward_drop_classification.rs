// Replay for the repaired defect  property=C11  fix 0ec0001 "chmux forward reports a dropped receiver to the sender as dropped"
// obligation: U2_sender.forward::closed_arm/relay_passes_a_dropped_receiver_on_as_a_drop_and_a_close_as_a_close
//             (with U1_credit.CreditUser::closed/sender_side_knows_whether_the_receiver_closed_or_was_dropped)
// How to run: save as remoc/tests/rch/hunt_d2.rs, add `mod hunt_d2;` to remoc/tests/rch/mod.rs,  cargo test --offline -p remoc --test tests rch::hunt_d2
// Before the fix: bin receiver sent A -> B and handed on B -> C; C drops it.  A's tx.closed() resolves, but tx.send fails with
// SendError::Closed { gracefully: true } ("remote endpoint closed channel but still processes sent messages") for as long as A keeps
// the sender: the relay answered every closure of its outgoing port with a graceful rx.close().

//! Drop of a forwarded bin receiver as seen by the sender.

use bytes::Bytes;
use std::time::Duration;

use crate::loop_channel;
use remoc::{chmux, exec, exec::time::timeout, rch::bin};

const T: Duration = Duration::from_secs(10);

/// C11: a bin receiver that was forwarded and then dropped is seen as dropped (not as gracefully closed)
/// by the sender.
#[tokio::test]
async fn hunt_bin_forward_drop_classification() {
    crate::init();
    let ((mut a_tx, _a_rx), (_b_tx, mut b_rx)) = loop_channel::<bin::Receiver>().await;
    let ((mut c_tx, _c_rx), (_d_tx, mut d_rx)) = loop_channel::<bin::Receiver>().await;

    let (tx, rx) = bin::channel();
    a_tx.send(rx).await.unwrap();
    let rx = b_rx.recv().await.unwrap().unwrap();
    c_tx.send(rx).await.unwrap();
    let rx = d_rx.recv().await.unwrap().unwrap();

    let mut tx = tx.into_inner().await.unwrap();
    let mut rx = rx.into_inner().await.unwrap();

    tx.send(Bytes::from_static(b"one")).await.unwrap();
    let d = timeout(T, rx.recv()).await.unwrap().unwrap().unwrap();
    assert_eq!(Bytes::from(d), Bytes::from_static(b"one"));

    // Final receiver is dropped: nobody processes data anymore.
    drop(rx);

    timeout(T, tx.closed()).await.expect("drop not observable at the sender");
    // Give the forwarder time to propagate the precise condition.
    exec::time::sleep(Duration::from_millis(300)).await;

    match tx.send(Bytes::from_static(b"two")).await {
        Ok(()) => panic!("send after drop of the receiver succeeded"),
        Err(chmux::SendError::Closed { gracefully }) => {
            assert!(!gracefully, "dropped receiver reported as gracefully closed (still processing sent messages)")
        }
        Err(err) => panic!("wrong classification: {err}"),
    }
}
