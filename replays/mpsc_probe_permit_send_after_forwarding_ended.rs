// Replay for the KNOWN FINDING  property=C11 / C04
// obligation: U17_mpsc_loops.Permit::send/a_value_sent_through_a_reserved_slot_after_forwarding_ended_is_reported_dropped
// How to run: save as remoc/tests/rch/mpsc_permit_after_drop.rs, add `mod mpsc_permit_after_drop;` to remoc/tests/rch/mod.rs,  cargo test --offline -p remoc --test tests mpsc_permit_after_drop
// Fails on the current tree: two slots are reserved (two permits, or two SenderSinks that returned poll_ready == Ok); the remote receiver is
// dropped (tx.closed() completes, closed_reason() == Dropped); p1.send(3) returns a Sending that never resolves while p2 is held, and
// sink1.flush() hangs while sink2 stays ready (3 s timeouts).  Control: with p2 dropped first the handle resolves to Dropped at once.

//! A value sent through a reserved slot after the receiver has been dropped must be reported
//! as failed/dropped through its Sending handle; the report must not depend on what the
//! holders of other reserved slots do.

use futures::{SinkExt, future};
use std::time::Duration;

use crate::loop_channel;
use remoc::rch::{ClosedReason, SendingError, mpsc};

#[tokio::test]
async fn permit_send_after_remote_drop_resolves() {
    crate::init();
    let ((mut a_tx, _), (_, mut b_rx)) = loop_channel::<mpsc::Receiver<u32>>().await;

    let (tx, rx) = mpsc::channel(16);
    a_tx.send(rx).await.unwrap();
    let mut rx = b_rx.recv().await.unwrap().unwrap();

    tx.send(1).await.unwrap().await.unwrap();
    assert_eq!(rx.recv().await.unwrap(), Some(1));

    // Two slots are reserved, e.g. by two tasks that share the channel.
    let p1 = tx.reserve().await.unwrap();
    let p2 = tx.reserve().await.unwrap();

    // The remote receiver is dropped and the sender learns of it.
    drop(rx);
    tx.closed().await;
    assert_eq!(tx.closed_reason(), Some(ClosedReason::Dropped));
    assert!(tx.send(2).await.is_err());

    // Send through the first slot: the value cannot be delivered anymore.
    let sending = p1.send(3);
    let res = tokio::time::timeout(Duration::from_secs(3), sending).await;
    match res {
        Ok(Err(SendingError::Dropped)) | Ok(Err(SendingError::Send(_))) => (),
        Ok(Ok(())) => panic!("value sent to a dropped receiver reported as sent"),
        Err(_) => panic!("the Sending handle of a value sent to a dropped receiver never resolves"),
    }

    drop(p2);
}

#[tokio::test]
async fn permit_send_after_remote_drop_resolves_control() {
    crate::init();
    let ((mut a_tx, _), (_, mut b_rx)) = loop_channel::<mpsc::Receiver<u32>>().await;

    let (tx, rx) = mpsc::channel(16);
    a_tx.send(rx).await.unwrap();
    let rx = b_rx.recv().await.unwrap().unwrap();

    let p1 = tx.reserve().await.unwrap();
    let p2 = tx.reserve().await.unwrap();
    drop(rx);
    tx.closed().await;

    // No other slot is reserved.
    drop(p2);

    let sending = p1.send(3);
    let res = tokio::time::timeout(Duration::from_secs(3), sending).await;
    assert!(matches!(res, Ok(Err(SendingError::Dropped))), "{res:?}");
}

/// The same through two sinks (each ready sink holds a reserved slot).
#[tokio::test]
async fn sink_send_after_remote_drop_resolves() {
    crate::init();
    let ((mut a_tx, _), (_, mut b_rx)) = loop_channel::<mpsc::Receiver<u32>>().await;

    let (tx, rx) = mpsc::channel(16);
    a_tx.send(rx).await.unwrap();
    let rx = b_rx.recv().await.unwrap().unwrap();

    let mut sink1 = mpsc::SenderSink::from(tx.clone());
    let mut sink2 = mpsc::SenderSink::from(tx.clone());
    future::poll_fn(|cx| sink1.poll_ready_unpin(cx)).await.unwrap();
    future::poll_fn(|cx| sink2.poll_ready_unpin(cx)).await.unwrap();

    drop(rx);
    tx.closed().await;

    sink1.start_send_unpin(7).unwrap();
    let res = tokio::time::timeout(Duration::from_secs(3), sink1.flush()).await;
    match res {
        Ok(Err(err)) => assert_eq!(err.closed_reason(), Some(ClosedReason::Dropped)),
        Ok(Ok(())) => panic!("flush reported success for a value sent to a dropped receiver"),
        Err(_) => panic!("flush of a value sent to a dropped receiver hangs while another sink is ready"),
    }

    drop(sink2);
}
