// Replay for the OPEN known finding  property=C13 / C14  obligation U7_vec.VecSubscription::take_initial/a_taken_snapshot_does_not_travel_as_an_untaken_empty_one
// (and the same obligation in U7_vec_deque, U7_hash_map, U7_hash_set)
// How to run: the file below goes to the path named in the marker (plus its `mod` line);  cargo test --offline -p remoc --test tests <name of the test>
// Observed on the unchanged tree: sub = obs.subscribe(16) with obs = [1,2,3]; sub.take_initial(); obs.push(4); the subscription is sent to
// another endpoint.  There is_complete() == false, take_initial() returns Some([]) -- an initial value the collection never had --, recv()
// panics ("take_initial must be called before recv"), and mirror() yields [4] with is_complete() == true while the collection is [1,2,3,4].

// ===== file: remoc/tests/robs/forwarded_after_take_initial.rs =====
use remoc::robs::vec::{ObservableVec, VecEvent, VecSubscription};

use crate::loop_channel;

/// C13/C14: a snapshot subscription whose initial value has been taken and that is then
/// handed on to another endpoint must still be a subscription whose initial value has been taken:
/// take_initial returns None ("Otherwise None is returned"), is_complete is true and
/// recv delivers the events that follow.
#[tokio::test]
async fn vec_sub_forwarded_after_take_initial() {
    crate::init();
    let ((mut a_tx, _), (_, mut b_rx)) = loop_channel::<VecSubscription<u32>>().await;

    let mut obs: ObservableVec<u32> = ObservableVec::from(vec![1, 2, 3]);
    let mut sub = obs.subscribe(16);
    assert_eq!(sub.take_initial(), Some(vec![1, 2, 3]));
    assert!(sub.is_complete());
    assert_eq!(sub.take_initial(), None);

    obs.push(4);

    assert!(a_tx.send(sub).await.is_ok());
    let mut sub = b_rx.recv().await.unwrap().unwrap();

    assert!(sub.is_complete(), "initial value was taken before forwarding, but is_complete() is false");
    assert_eq!(sub.take_initial(), None, "initial value was taken before forwarding");
    assert_eq!(sub.recv().await.unwrap(), Some(VecEvent::Push(4)));
}

/// Same, consuming by hand without asking for the (already taken) initial value again.
#[tokio::test]
async fn vec_sub_forwarded_after_take_initial_recv() {
    crate::init();
    let ((mut a_tx, _), (_, mut b_rx)) = loop_channel::<VecSubscription<u32>>().await;

    let mut obs: ObservableVec<u32> = ObservableVec::from(vec![1, 2, 3]);
    let mut sub = obs.subscribe(16);
    assert_eq!(sub.take_initial(), Some(vec![1, 2, 3]));
    obs.push(4);

    assert!(a_tx.send(sub).await.is_ok());
    let mut sub = b_rx.recv().await.unwrap().unwrap();
    // panics: "take_initial must be called before recv for non-incremental subscription"
    assert_eq!(sub.recv().await.unwrap(), Some(VecEvent::Push(4)));
}

/// Siblings of vec_sub_forwarded_after_take_initial.
#[tokio::test]
async fn other_subs_forwarded_after_take_initial() {
    use remoc::robs::{
        hash_map::{HashMapEvent, HashMapSubscription, ObservableHashMap},
        hash_set::{HashSetEvent, HashSetSubscription, ObservableHashSet},
        vec_deque::{ObservableVecDeque, VecDequeEvent, VecDequeSubscription},
    };
    crate::init();
    let mut failures = Vec::new();

    {
        let ((mut a_tx, _), (_, mut b_rx)) = loop_channel::<HashMapSubscription<u32, u32>>().await;
        let mut obs: ObservableHashMap<u32, u32> = ObservableHashMap::from([(1, 1)].into_iter().collect::<std::collections::HashMap<_, _>>());
        let mut sub = obs.subscribe(16);
        assert!(sub.take_initial().is_some());
        obs.insert(2, 2);
        assert!(a_tx.send(sub).await.is_ok());
        let mut sub = b_rx.recv().await.unwrap().unwrap();
        let complete = sub.is_complete();
        let again = sub.take_initial();
        if !complete || again.is_some() {
            failures.push("hash map");
        }
        assert_eq!(sub.recv().await.unwrap(), Some(HashMapEvent::Set(2, 2)));
    }
    {
        let ((mut a_tx, _), (_, mut b_rx)) = loop_channel::<HashSetSubscription<u32>>().await;
        let mut obs: ObservableHashSet<u32> = ObservableHashSet::from([1].into_iter().collect::<std::collections::HashSet<_>>());
        let mut sub = obs.subscribe(16);
        assert!(sub.take_initial().is_some());
        obs.insert(2);
        assert!(a_tx.send(sub).await.is_ok());
        let mut sub = b_rx.recv().await.unwrap().unwrap();
        let complete = sub.is_complete();
        let again = sub.take_initial();
        if !complete || again.is_some() {
            failures.push("hash set");
        }
        assert_eq!(sub.recv().await.unwrap(), Some(HashSetEvent::Set(2)));
    }
    {
        let ((mut a_tx, _), (_, mut b_rx)) = loop_channel::<VecDequeSubscription<u32>>().await;
        let mut obs: ObservableVecDeque<u32> = ObservableVecDeque::from(std::collections::VecDeque::from(vec![1]));
        let mut sub = obs.subscribe(16);
        assert!(sub.take_initial().is_some());
        obs.push_back(2);
        assert!(a_tx.send(sub).await.is_ok());
        let mut sub = b_rx.recv().await.unwrap().unwrap();
        let complete = sub.is_complete();
        let again = sub.take_initial();
        if !complete || again.is_some() {
            failures.push("vec deque");
        }
        assert_eq!(sub.recv().await.unwrap(), Some(VecDequeEvent::PushBack(2)));
    }

    assert!(failures.is_empty(), "initial value handed out a second time after forwarding: {failures:?}");
}
