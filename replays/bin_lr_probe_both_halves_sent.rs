// Replay for the repaired defect  property=C05  (fix: 4197441 "mark the half that is being sent in the bin and lr send interlock")
// obligations: U13_interlock.*_interlock::serialize::interlock/direct_hand_over_marks_the_half_that_leaves,
//              .../lr_half_cannot_be_sent_once_its_counterpart_was, both_halves_never_leave_as_a_directly_connected_pair
//
// How to run: append the tests below to /repo/remoc/tests/rch/bin.rs in a scratch worktree and run
//     cargo test --offline -p remoc --test tests probe_
// Before the fix (878e717): all three fail -- both halves of one bin channel sent to the peer one after the other give a
// dead channel ("send failed: Closed { gracefully: false }", either order) although rch::bin documents that forwarding
// is supported; an lr channel accepts its sender for sending after its receiver was sent ("sending the sender after the
// receiver: Ok(())"), and then neither remote half works.  After the fix: 3 passed, and the full suite (141) passes.


/// probe: the receiver of a bin channel goes to the remote endpoint first, then the sender of the SAME channel follows.
/// Both halves are then at the remote endpoint; data written there must arrive there (forwarded through us).
#[cfg_attr(not(feature = "js"), tokio::test)]
async fn probe_both_halves_sent_one_after_the_other() {
    crate::init();
    let ((mut a_tx, _), (_, mut b_rx)) = loop_channel::<bin::Receiver>().await;
    let ((mut a_tx2, _), (_, mut b_rx2)) = loop_channel::<bin::Sender>().await;

    let (tx, rx) = bin::channel();
    a_tx.send(rx).await.unwrap();
    let rx_remote = b_rx.recv().await.unwrap().unwrap();
    tokio::time::sleep(std::time::Duration::from_millis(200)).await;

    a_tx2.send(tx).await.unwrap();
    let tx_remote = b_rx2.recv().await.unwrap().unwrap();

    let res = tokio::time::timeout(std::time::Duration::from_secs(5), async move {
        let mut tx_remote = tx_remote.into_inner().await.expect("sender half did not connect");
        let mut rx_remote = rx_remote.into_inner().await.expect("receiver half did not connect");
        tx_remote.send(Bytes::from_static(b"hello")).await.expect("send failed");
        let got = rx_remote.recv().await.expect("recv failed").expect("channel ended without data");
        Bytes::from(got)
    })
    .await;
    match res {
        Ok(b) => assert_eq!(&b[..], b"hello"),
        Err(_) => panic!("timeout: data sent on the moved sender never reached the moved receiver"),
    }
}

/// probe for rch::lr: after the receiver was sent, sending the sender must be refused
#[cfg_attr(not(feature = "js"), tokio::test)]
async fn probe_lr_both_halves() {
    use remoc::rch::lr;
    crate::init();
    let ((mut a_tx, _), (_, mut b_rx)) = loop_channel::<lr::Receiver<i16>>().await;
    let ((mut a_tx2, _), (_, mut b_rx2)) = loop_channel::<lr::Sender<i16>>().await;
    let (tx, rx) = lr::channel::<i16, remoc::codec::Default>();
    a_tx.send(rx).await.unwrap();
    let mut rx_remote = b_rx.recv().await.unwrap().unwrap();
    tokio::time::sleep(std::time::Duration::from_millis(200)).await;
    let r = a_tx2.send(tx).await;
    println!("sending the sender after the receiver: {:?}", r.as_ref().map(|_| ()).map_err(|e| e.to_string()));
    if r.is_ok() {
        let mut tx_remote = b_rx2.recv().await.unwrap().unwrap();
        let s = tokio::time::timeout(std::time::Duration::from_secs(3), tx_remote.send(7)).await;
        println!("send on moved sender: {:?}", s.map(|r| r.map_err(|e| e.to_string())));
        let g = tokio::time::timeout(std::time::Duration::from_secs(3), rx_remote.recv()).await;
        println!("recv on moved receiver: {:?}", g.map(|r| r.map_err(|e| e.to_string())));
        panic!("both halves of an lr channel were accepted for sending");
    }
}

/// probe: opposite order -- the sender goes first, then the receiver of the same channel
#[cfg_attr(not(feature = "js"), tokio::test)]
async fn probe_both_halves_sent_sender_first() {
    crate::init();
    let ((mut a_tx, _), (_, mut b_rx)) = loop_channel::<bin::Receiver>().await;
    let ((mut a_tx2, _), (_, mut b_rx2)) = loop_channel::<bin::Sender>().await;

    let (tx, rx) = bin::channel();
    a_tx2.send(tx).await.unwrap();
    let tx_remote = b_rx2.recv().await.unwrap().unwrap();
    tokio::time::sleep(std::time::Duration::from_millis(200)).await;
    a_tx.send(rx).await.unwrap();
    let rx_remote = b_rx.recv().await.unwrap().unwrap();

    let res = tokio::time::timeout(std::time::Duration::from_secs(5), async move {
        let mut tx_remote = tx_remote.into_inner().await.expect("sender half did not connect");
        let mut rx_remote = rx_remote.into_inner().await.expect("receiver half did not connect");
        tx_remote.send(Bytes::from_static(b"hello")).await.expect("send failed");
        let got = rx_remote.recv().await.expect("recv failed").expect("channel ended without data");
        Bytes::from(got)
    })
    .await;
    match res {
        Ok(b) => assert_eq!(&b[..], b"hello"),
        Err(_) => panic!("timeout: data sent on the moved sender never reached the moved receiver"),
    }
}
