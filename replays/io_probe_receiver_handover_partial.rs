// Replay for the repaired defect  property=C18  fix 87c8347 "io::Receiver refuses to be sent once reading has started"
// obligation: U8_io.Receiver::serialize/a_receiver_that_has_started_reading_is_not_handed_over_as_fresh
// How to run: save as remoc/tests/rch/hunt_d4.rs, add `mod hunt_d4;` to remoc/tests/rch/mod.rs,  cargo test --offline -p remoc --test tests rch::hunt_d4
// Before the fix: io::sized(20); the writer writes "0123456789", flushes, writes "abcdefghij", shuts down.  The first holder reads 4 bytes
// and sends the receiver on: the new holder reads "abcdefghij" and then gets UnexpectedEof "expected 20 bytes, received 10 bytes" -- the six
// bytes "456789" already taken out of the channel were lost and the count restarted.  After the fix the hand-over is refused.

//! Hand-over of a partially read io receiver.

use std::time::Duration;
use tokio::io::{AsyncReadExt, AsyncWriteExt};

use crate::loop_channel;
use remoc::{exec, exec::time::timeout, rch::io};

const T: Duration = Duration::from_secs(10);

/// C18: an io receiver handed on after it was partially read.
#[tokio::test]
async fn hunt_io_receiver_handover_partial() {
    crate::init();
    let ((mut a_tx, _a_rx), (_b_tx, mut b_rx)) = loop_channel::<io::Receiver>().await;
    let ((mut c_tx, _c_rx), (_d_tx, mut d_rx)) = loop_channel::<io::Receiver>().await;

    let (mut tx, rx) = io::sized(20);
    a_tx.send(rx).await.unwrap();
    let mut rx = b_rx.recv().await.unwrap().unwrap();

    let write_task = exec::spawn(async move {
        tx.write_all(b"0123456789").await.unwrap();
        tx.flush().await.unwrap();
        tx.write_all(b"abcdefghij").await.unwrap();
        tx.shutdown().await.unwrap();
    });

    let mut first = [0u8; 4];
    timeout(T, rx.read_exact(&mut first)).await.unwrap().unwrap();
    assert_eq!(&first, b"0123");

    // Hand over.
    match c_tx.send(rx).await {
        Ok(()) => (),
        Err(err) => {
            println!("hand-over of a partially read receiver refused: {err}");
            return;
        }
    }
    let mut rx = d_rx.recv().await.unwrap().unwrap();
    let mut rest = Vec::new();
    let res = timeout(T, rx.read_to_end(&mut rest)).await.expect("read hangs");
    write_task.await.unwrap();
    println!("rest {:?} res {res:?}", String::from_utf8_lossy(&rest));
    // Either the complete rest arrives, or what arrives is a prefix of the rest and an error is reported.
    let full = b"456789abcdefghij";
    match res {
        Ok(_) => assert_eq!(rest, full, "silent loss"),
        Err(_) => assert!(full.starts_with(&rest), "gap in the byte stream: {:?}", String::from_utf8_lossy(&rest)),
    }
}
