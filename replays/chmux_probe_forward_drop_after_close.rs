// Replay for the KNOWN FINDING  property=C11
// obligation: U2_sender.forward::closed_watch_guard/the_relay_still_notices_a_drop_that_follows_a_graceful_close
// How to run: save as remoc/tests/chmux/review_forward.rs, add `mod review_forward;` to remoc/tests/chmux/mod.rs,  cargo test --offline -p remoc --test tests review_forward
// Fails on the current tree (forwarded_drop_after_graceful_close): A --conn 1--> Receiver::forward() --conn 2--> B; B closes its receiver
// gracefully and then drops it: A keeps being told Closed { gracefully: true } ("still processes sent messages") and the forwarding
// task keeps running; on a direct port (control test direct_drop_after_graceful_close, passes) A is told Closed { gracefully: false }.

//! Review of 0ec0001 / 063ca20 (forward reports a dropped receiver to the sender as dropped).

use bytes::Bytes;
use futures::{future::try_join, stream::StreamExt};
use std::time::Duration;
use tokio::time::{sleep, timeout};

use crate::loop_transport;
use remoc::{
    chmux::{self, SendError},
    exec,
};

fn cfg() -> chmux::Cfg {
    chmux::Cfg { connection_timeout: None, ..Default::default() }
}

/// A connected pair of multiplexers with one open port: (client side, listener side).
async fn pair() -> ((chmux::Sender, chmux::Receiver), (chmux::Sender, chmux::Receiver)) {
    loop_transport!(0, a_tx, a_rx, b_tx, b_rx);
    let ((a_mux, a_client, a_listener), (b_mux, b_client, mut b_listener)) =
        try_join(chmux::ChMux::new(cfg(), a_tx, a_rx), chmux::ChMux::new(cfg(), b_tx, b_rx)).await.unwrap();
    exec::spawn(async move { a_mux.run().await });
    exec::spawn(async move { b_mux.run().await });

    let (a, b) = tokio::join!(a_client.connect(), b_listener.accept());
    let a = a.unwrap();
    let b = b.unwrap().unwrap();

    // Keep the connection up for the duration of the test.
    exec::spawn(async move {
        let _keep = (a_client, a_listener, b_client, b_listener);
        futures::future::pending::<()>().await;
    });

    (a, b)
}

/// What the sender is told when the receiver is closed gracefully and dropped afterwards.
async fn close_then_drop(mut tx: chmux::Sender, mut rx: chmux::Receiver) -> (SendError, SendError) {
    tx.send(Bytes::from_static(b"one")).await.unwrap();
    let got: Bytes = timeout(Duration::from_secs(5), rx.recv()).await.unwrap().unwrap().unwrap().into();
    assert_eq!(&got[..], b"one");

    // Graceful close: what has been sent is still processed.
    rx.close().await;
    timeout(Duration::from_secs(5), tx.closed()).await.expect("sender does not learn of the close");
    let after_close = tx.send(Bytes::from_static(b"two")).await.unwrap_err();

    // Now the receiver goes away: nobody processes anything anymore.
    drop(rx);
    sleep(Duration::from_millis(500)).await;
    let after_drop = tx.send(Bytes::from_static(b"three")).await.unwrap_err();

    (after_close, after_drop)
}

/// Control: on a direct connection the sender learns of the drop that follows a graceful close.
#[tokio::test]
async fn direct_drop_after_graceful_close() {
    crate::init();
    let ((a_tx, _a_rx), (_b_tx, b_rx)) = pair().await;

    let (after_close, after_drop) = close_then_drop(a_tx, b_rx).await;
    assert!(matches!(after_close, SendError::Closed { gracefully: true }), "after close: {after_close:?}");
    assert!(matches!(after_drop, SendError::Closed { gracefully: false }), "after drop: {after_drop:?}");
}

/// The same over a forwarded channel: A --(connection 1)--> forward() --(connection 2)--> B.
#[tokio::test]
async fn forwarded_drop_after_graceful_close() {
    crate::init();
    let ((a_tx, _a_rx), (_f1_tx, mut f1_rx)) = pair().await;
    let ((mut f2_tx, _f2_rx), (_b_tx, b_rx)) = pair().await;

    let fwd = exec::spawn(async move { f1_rx.forward(&mut f2_tx).await });

    let (after_close, after_drop) = close_then_drop(a_tx, b_rx).await;
    assert!(matches!(after_close, SendError::Closed { gracefully: true }), "after close: {after_close:?}");
    assert!(
        matches!(after_drop, SendError::Closed { gracefully: false }),
        "the final receiver has been dropped, but the sender is still told: {after_drop} ({after_drop:?}); \
         forwarding task finished: {}",
        fwd.is_finished()
    );
}
