// Replay for the repaired defect  property=C18  fix 102f095 "a failed shutdown of a short sized io stream must not replace the announced size"
// obligation: U8_io.Sender::poll_shutdown/announced_size_is_never_replaced
// How to run: save as remoc/tests/rch/io_short_shutdown.rs, add `mod io_short_shutdown;` to remoc/tests/rch/mod.rs,
//     cargo test --offline -p remoc --test tests io_short_shutdown
// Before the fix: sized(10) with 5 bytes written: first shutdown UnexpectedEof, then expected_size() == Some(5) and a second shutdown is Ok.
//! C18: end-of-file is reported successfully only when the total equals the size
//! fixed at creation; a short stream yields an error on the affected side.

use tokio::io::{AsyncReadExt, AsyncWriteExt};

use crate::loop_channel;
use remoc::rch::io;

#[tokio::test]
async fn io_sized_short_shutdown_stays_error() {
    crate::init();
    let ((mut a_tx, _a_rx), (_b_tx, mut b_rx)) = loop_channel::<io::Receiver>().await;
    let (mut tx, rx) = io::sized(10);
    a_tx.send(rx).await.unwrap();
    let mut rx = b_rx.recv().await.unwrap().unwrap();

    tx.write_all(b"01234").await.unwrap();
    assert_eq!(tx.shutdown().await.unwrap_err().kind(), std::io::ErrorKind::UnexpectedEof);

    // The size was fixed at creation.
    assert_eq!(tx.expected_size(), Some(10), "size fixed at creation changed by failed shutdown");
    assert_eq!(tx.remaining(), Some(5));

    // Only 5 of 10 bytes were written; shutdown must not report success now.
    assert!(tx.shutdown().await.is_err(), "second shutdown of a short stream reports success");

    let mut buf = Vec::new();
    assert!(rx.read_to_end(&mut buf).await.is_err());
}

