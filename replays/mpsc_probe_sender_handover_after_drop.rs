// Replay for the OPEN known finding  property=C11  obligation U17_mpsc_loops.Sender::new_closed/handed_over_sender_of_an_ended_channel_keeps_the_reason
// How to run: append to remoc/tests/rch/mpsc.rs,  cargo test --offline -p remoc --test tests sender_handover_after_receiver
// Observed on the unchanged tree: (tx, rx) = mpsc::channel; drop(rx); tx.closed_reason() == Some(Dropped).  tx is then sent to another
// endpoint: the received sender reports closed_reason() == Some(Closed) and its sends fail with SendError::Closed ("the remote end closed
// the channel").  TransportedSender carries `port: None` and nothing else; Deserialize builds Sender::new_closed(), which hard-codes Closed.

/// A sender whose receiver has been dropped is handed over to a remote endpoint.
/// The new holder must see the same classification as the previous one: dropped, not closed gracefully.
#[cfg_attr(not(feature = "js"), tokio::test)]
#[cfg_attr(feature = "js", wasm_bindgen_test)]
async fn sender_handover_after_receiver_dropped_keeps_reason() {
    crate::init();
    let ((mut a_tx, _a_rx), (_b_tx, mut b_rx)) = loop_channel::<mpsc::Sender<u32>>().await;
    let (tx, rx) = mpsc::channel::<u32, codec::Default>(4);

    drop(rx);
    tx.closed().await;
    assert_eq!(tx.closed_reason(), Some(ClosedReason::Dropped));
    // Give the sender's housekeeping task time to release the channel.
    sleep(Duration::from_millis(100)).await;

    a_tx.send(tx).await.unwrap();
    let tx = tokio::time::timeout(Duration::from_secs(10), b_rx.recv()).await.unwrap().unwrap().unwrap();
    tokio::time::timeout(Duration::from_secs(10), tx.closed()).await.unwrap();

    assert!(tx.is_closed());
    assert_eq!(tx.closed_reason(), Some(ClosedReason::Dropped), "receiver was dropped, not closed");
    match tx.send(1).await {
        Ok(_) => panic!("send succeeded after receiver was dropped"),
        Err(err) => {
            assert!(err.is_disconnected());
            assert!(!err.is_closed(), "dropped receiver reported as closed gracefully");
            assert_eq!(err.closed_reason(), Some(ClosedReason::Dropped));
        }
    }
}
