// Replay for  property=C13 / C14
//  (1) repaired defect, fix 61ef49b "mirror of a snapshot subscription whose initial value was taken reports an error"
//      obligation: U7_{hash_map,hash_set,vec,vec_deque}.*Subscription::mirror_initial/a_mirror_of_a_subscription_whose_snapshot_was_taken_says_so
//      test mirror_of_subscription_with_taken_initial: failed before the fix (mirror complete, done, error-free, holding 1 of 11 elements)
//  (2) KNOWN FINDING, obligation .../a_mirror_of_an_incremental_subscription_that_has_delivered_elements_says_so
//      test mirror_of_partly_consumed_incremental_subscription: FAILS on the current tree (the mirror silently lacks the four elements
//      recv() had already delivered)
// How to run: append the tests below to remoc/tests/robs/hash_map.rs,  cargo test --offline -p remoc --test tests robs::hash_map::mirror_of


/// A mirror built from a subscription whose initial value has already been taken
/// must not present a map that the observed map never was: it lacks the initial contents.
#[cfg_attr(not(feature = "js"), tokio::test)]
#[cfg_attr(feature = "js", wasm_bindgen_test)]
async fn mirror_of_subscription_with_taken_initial() {
    let mut pre = HashMap::new();
    for i in 0..10 {
        pre.insert(i, format!("pre {i}"));
    }
    let mut obs: ObservableHashMap<_, _, remoc::codec::Default> = ObservableHashMap::from(pre.clone());

    let mut sub = obs.subscribe(1024);
    assert_eq!(sub.take_initial(), Some(pre));
    let mut mirror = sub.mirror(1000);

    obs.insert(100, "100".to_string());
    obs.done();

    // Either the mirror reports an error (like the list mirror does since 688948c) or it is correct.
    let wait_done = async {
        loop {
            match mirror.borrow_and_update().await {
                Ok(mb) if mb.is_done() => break Ok(()),
                Ok(_) => (),
                Err(err) => break Err(err),
            }
            mirror.changed().await;
        }
    };
    match tokio::time::timeout(Duration::from_secs(5), wait_done).await.expect("mirror not done") {
        Err(err) => println!("mirror reports error: {err}"),
        Ok(()) => {
            let mb = mirror.borrow().await.unwrap();
            println!("original: {obs:?}");
            println!("mirrored: {mb:?}");
            assert!(mb.is_complete() && mb.is_done());
            assert_eq!(*mb, *obs, "complete and done mirror without error differs from observed map");
        }
    }
}

/// Same for an incremental subscription from which part of the initial contents has been received.
#[cfg_attr(not(feature = "js"), tokio::test)]
#[cfg_attr(feature = "js", wasm_bindgen_test)]
async fn mirror_of_partly_consumed_incremental_subscription() {
    let mut pre = HashMap::new();
    for i in 0..10 {
        pre.insert(i, format!("pre {i}"));
    }
    let mut obs: ObservableHashMap<_, _, remoc::codec::Default> = ObservableHashMap::from(pre.clone());

    let mut sub = obs.subscribe_incremental(1024);
    for _ in 0..4 {
        assert!(matches!(sub.recv().await.unwrap(), Some(HashMapEvent::Set(_, _))));
    }
    let mut mirror = sub.mirror(1000);

    obs.insert(100, "100".to_string());
    obs.done();

    let wait_done = async {
        loop {
            match mirror.borrow_and_update().await {
                Ok(mb) if mb.is_done() => break Ok(()),
                Ok(_) => (),
                Err(err) => break Err(err),
            }
            mirror.changed().await;
        }
    };
    match tokio::time::timeout(Duration::from_secs(5), wait_done).await.expect("mirror not done") {
        Err(err) => println!("mirror reports error: {err}"),
        Ok(()) => {
            let mb = mirror.borrow().await.unwrap();
            println!("original: {obs:?}");
            println!("mirrored: {mb:?}");
            assert!(mb.is_complete() && mb.is_done());
            assert_eq!(*mb, *obs, "complete and done mirror without error differs from observed map");
        }
    }
}
