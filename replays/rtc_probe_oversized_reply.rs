// Replay for the known finding  property=C19  obligation=U21_rtc.send_reply::report_task/reply_that_cannot_be_encoded_or_is_too_large_fails_only_that_call
//
// How to run: append the test below to /repo/remoc/tests/rtc/errors.rs in a scratch worktree (it uses the trait
// DataGenerator defined there) and run
//     cargo test --offline -p remoc --test tests probe_oversized_reply
// Observed on the pinned tree: the first call (reply over the caller's max_reply_size) fails with CallError::Dropped as
// it should; the *second, perfectly fine* call then fails with
//     Err(RemoteSend(Send(Closed { gracefully: false })))
// because rtc::send_reply's watcher task pushed SendingErrorKind::Send(MaxItemSizeExceeded) into the reply-error channel
// and the first arm of the generated serve loop (`Some(err) = err_rx.recv() => return Err(err.into())`) ended serving for
// everybody.  The existing test rtc::errors::max_item_size_exceeded pins that `serve()` returns this error, so the
// behaviour is deliberate; it contradicts C19 ("a reply that exceeds the size limit fails only that call").

#[cfg_attr(not(feature = "js"), tokio::test)]
async fn probe_oversized_reply_fails_only_that_call() {
    use remoc::rtc::{Client, ServerRefMut};

    crate::init();
    let ((mut a_tx, _), (_, mut b_rx)) = loop_channel::<DataGeneratorClient>().await;

    let mut gen_obj = DataGeneratorObj::new();
    let (server, client) = DataGeneratorServerRefMut::new(&mut gen_obj, 1);
    a_tx.send(client).await.unwrap();

    let client_task = async move {
        let mut client = b_rx.recv().await.unwrap().unwrap();
        client.set_max_reply_size(16777);
        let max_item_size = client.max_reply_size();

        // over the limit: this call fails
        let rxed = client.data(max_item_size * 10).await;
        assert!(matches!(rxed, Err(remoc::rtc::CallError::Dropped)));

        // a later, perfectly fine call on the same server
        tokio::time::sleep(std::time::Duration::from_millis(200)).await;
        let rxed = client.data(10).await;
        println!("second call: {:?}", rxed.as_ref().map(|v| v.len()));
        assert!(rxed.is_ok(), "an oversized reply to one call made the server stop serving: {rxed:?}");
    };

    let ((), _res) = tokio::join!(client_task, server.serve());
}
