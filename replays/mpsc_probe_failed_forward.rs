// Replay for the repaired defect  property=C11  fix ae9f3c7 "an mpsc send that finds its queue gone reports the failure that ended forwarding"
// (a REGRESSION of MY OWN repair 147ef52, found by the round that reviewed my newest repairs) -- second test below;
// the FIRST test below is the replay of the OPEN known finding  U17_mpsc_loops.send_impl::data_arm/the_receiver_is_told_when_forwarding_ends_because_a_value_could_not_be_sent
// obligation (fix): U17_mpsc_loops.Sender::send/a_send_that_finds_the_queue_gone_reports_the_failure_that_ended_it
// How to run: save as remoc/tests/rch/r5_failed_forward.rs, add `mod r5_failed_forward;` to remoc/tests/rch/mod.rs,  cargo test --offline -p remoc --test tests r5_failed_forward
// Before the fix (on 147ef52..): a send() waiting for queue space while the forwarding task ends on an untransmittable value fails with
// SendError::Closed (closed_reason() == Closed) instead of the latched failure.

//! Review of 147ef52: the mpsc forwarding loop ends after a value that could not be transmitted.

use serde::{Deserialize, Serialize};
use std::time::Duration;

use crate::loop_channel;
use remoc::{
    exec::time::{sleep, timeout},
    rch::{ClosedReason, SendingError, mpsc},
};

/// An item whose serialization takes a while and fails when `fail` is set.
#[derive(Debug, Clone, PartialEq, Deserialize)]
struct Item {
    fail: bool,
    v: u32,
}

#[derive(Serialize)]
#[serde(rename = "Item")]
struct ItemRef {
    fail: bool,
    v: u32,
}

impl Serialize for Item {
    fn serialize<S>(&self, serializer: S) -> Result<S::Ok, S::Error>
    where
        S: serde::Serializer,
    {
        if self.fail {
            std::thread::sleep(Duration::from_millis(500));
            return Err(serde::ser::Error::custom("this item cannot be serialized"));
        }
        ItemRef { fail: self.fail, v: self.v }.serialize(serializer)
    }
}

/// Property C11: each condition becomes observable at the other half with the right
/// classification (closed gracefully, dropped, connection failed).
///
/// Since 147ef52 the forwarding task of a received mpsc sender ends when a value cannot be
/// transmitted and drops the queue. A sender that waits for queue space at that moment gets
/// the failure of the tokio channel, which is reported as `SendError::Closed`, i.e.
/// "the remote end closed the channel" with closed_reason() == Closed, although the receiver
/// was neither closed nor dropped and Sender::closed_reason() says Failed.
#[tokio::test(flavor = "multi_thread", worker_threads = 4)]
async fn waiting_sender_is_not_told_closed_gracefully() {
    crate::init();
    let ((mut a_tx, _), (_, mut b_rx)) = loop_channel::<mpsc::Sender<Item>>().await;

    let (tx, mut rx) = mpsc::channel::<Item, remoc::codec::Default>(16);
    a_tx.send(tx).await.unwrap();
    // Received sender with a queue of two values.
    let tx = b_rx.recv().await.unwrap().unwrap();

    tx.send(Item { fail: false, v: 1 }).await.unwrap().await.unwrap();
    assert_eq!(rx.recv().await.unwrap(), Some(Item { fail: false, v: 1 }));

    // The forwarding task is busy with the value that will fail ...
    let failing = tx.send(Item { fail: true, v: 2 }).await.unwrap();
    sleep(Duration::from_millis(100)).await;
    // ... two values wait in the queue ...
    let queued_a = tx.send(Item { fail: false, v: 3 }).await.unwrap();
    let queued_b = tx.send(Item { fail: false, v: 4 }).await.unwrap();
    // ... and one more send waits for queue space.
    let res = timeout(Duration::from_secs(5), tx.send(Item { fail: false, v: 5 })).await.expect("send hangs");

    assert!(matches!(failing.await, Err(SendingError::Send(_))));
    println!("queued values: {:?} {:?}", queued_a.await.map_err(|e| e.kind()), queued_b.await.map_err(|e| e.kind()));
    assert_eq!(tx.closed_reason(), Some(ClosedReason::Failed));

    match res {
        Ok(_) => (),
        Err(err) => {
            println!("waiting send failed with: {err:?}");
            assert!(
                !err.is_closed() && err.closed_reason() != Some(ClosedReason::Closed),
                "the waiting sender is told that the receiver closed the channel gracefully: {err:?}"
            );
        }
    }
}

/// Property C11: the receiver never obtains end-of-stream with messages missing unless the
/// senders were dropped; a failed channel is not a gracefully ended one.
///
/// Since 147ef52 the forwarding task ends after the failed value and drops its chmux sender
/// without telling the receiver anything. The receiver obtains a regular end-of-stream
/// (Ok(None)) while the sender is still alive and while values that were accepted for
/// sending (Ok from send()) have been discarded.
#[tokio::test(flavor = "multi_thread", worker_threads = 4)]
async fn receiver_is_not_told_regular_end_after_failed_forward() {
    crate::init();
    let ((mut a_tx, _), (_, mut b_rx)) = loop_channel::<mpsc::Sender<Item>>().await;

    let (tx, mut rx) = mpsc::channel::<Item, remoc::codec::Default>(16);
    a_tx.send(tx).await.unwrap();
    let tx = b_rx.recv().await.unwrap().unwrap();

    tx.send(Item { fail: false, v: 1 }).await.unwrap();
    let failing = tx.send(Item { fail: true, v: 2 }).await.unwrap();
    sleep(Duration::from_millis(100)).await;
    let queued = tx.send(Item { fail: false, v: 3 }).await.unwrap();

    assert_eq!(rx.recv().await.unwrap(), Some(Item { fail: false, v: 1 }));

    let res = timeout(Duration::from_secs(5), rx.recv()).await.expect("receiver hangs");
    println!("receiver obtained: {res:?}");
    assert!(matches!(failing.await, Err(SendingError::Send(_))));
    println!("queued value: {:?}", queued.await.map_err(|e| e.kind()));

    // The sender is still alive, value 3 was accepted and then discarded.
    assert!(
        !matches!(res, Ok(None)),
        "the receiver obtained a regular end-of-stream although values are missing and the sender was not dropped"
    );
    drop(tx);
}
