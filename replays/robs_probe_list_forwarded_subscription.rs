// Replay for the repaired defect  property=C13  fix 3f3c8ee "a forwarded list subscription that is past its initial contents becomes complete"
// obligation: U7_list.ListSubscription::recv/list_subscription_marks_completion_once_the_initial_length_is_reached
// How to run: append the test below to remoc/tests/robs/list.rs, then  cargo test --offline -p remoc --test tests probe_forwarded_subscription
// Before the fix: a subscription that had received 3 elements of a list subscribed at length 2 is sent to the peer; there
// is_complete() stays false for good ("events after forwarding: [Some(Push(4))]"), and so does a mirror made from it.


/// probe: a list subscription that has already passed its initial contents is sent on to another endpoint;
/// there it must (still / again) count as complete, and a mirror of it must become complete.
#[tokio::test]
async fn probe_forwarded_subscription_is_complete() {
    use remoc::robs::list::ListSubscription;
    crate::init();
    let ((mut a_tx, _), (_, mut b_rx)) = crate::loop_channel::<ListSubscription<u32>>().await;

    let mut obs: ObservableList<u32, remoc::codec::Default> = ObservableList::from(vec![1, 2]);
    let mut sub = obs.subscribe();
    assert_eq!(sub.recv().await.unwrap(), Some(ListEvent::Push(1)));
    assert_eq!(sub.recv().await.unwrap(), Some(ListEvent::Push(2)));
    assert_eq!(sub.recv().await.unwrap(), Some(ListEvent::InitialComplete));
    obs.push(3);
    assert_eq!(sub.recv().await.unwrap(), Some(ListEvent::Push(3)));
    assert!(sub.is_complete());

    if a_tx.send(sub).await.is_err() { panic!("send failed"); }
    let mut sub = b_rx.recv().await.unwrap().unwrap();

    obs.push(4);
    let mut seen = Vec::new();
    for _ in 0..2 {
        match tokio::time::timeout(Duration::from_secs(3), sub.recv()).await {
            Ok(ev) => seen.push(ev.unwrap()),
            Err(_) => break,
        }
    }
    println!("events after forwarding: {seen:?}");
    assert!(sub.is_complete(), "forwarded subscription that is past its initial contents never becomes complete (events: {seen:?})");
}
