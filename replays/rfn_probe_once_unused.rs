// Replay for the repaired defect  property=C19 (also C12)  fix 6638509 "RFnOnce provider task does not panic when the function is dropped uncalled"
// obligation: U20_rfn.RFnOnce::provider_task/safety (tokio's "all branches are disabled and there is no else branch" is vpanic(), requires false)
// How to run: save as remoc/tests/rfn/rfn_once_unused.rs, add `mod rfn_once_unused;` to remoc/tests/rfn/mod.rs,  cargo test --offline -p remoc --test tests rfn_once_unused
// Before the fix: RFnOnce::new (provider kept) dropped without a call -- locally or after having been sent -- makes the provider task panic
// at remoc/src/rfn/rfn_once.rs:115 (keep_rx resolves Ok: first branch disabled; request_rx resolves Err: second branch disabled; no else).

//! An RFnOnce that is dropped without being called must be disposed of cleanly:
//! its provider task must not panic.

use std::{
    sync::atomic::{AtomicUsize, Ordering},
    time::Duration,
};

use crate::loop_channel;
use remoc::rfn::{CallError, RFnOnce};

#[tokio::test]
async fn rfn_once_dropped_without_call_does_not_panic() {
    crate::init();

    // Count the panics of background tasks.
    static PANICS: AtomicUsize = AtomicUsize::new(0);
    let prev = std::panic::take_hook();
    std::panic::set_hook(Box::new(move |info| {
        let loc = info.location().map(|l| l.file().to_string()).unwrap_or_default();
        if loc.contains("rfn_once.rs") {
            PANICS.fetch_add(1, Ordering::SeqCst);
        }
        prev(info);
    }));

    type F = RFnOnce<(), Result<u32, CallError>>;
    let ((mut a_tx, _), (_, mut b_rx)) = loop_channel::<F>().await;

    // Remote: received and dropped without a call.
    let rfn: F = RFnOnce::new_0(|| async move { Ok(1) });
    a_tx.send(rfn).await.unwrap();
    let rfn = b_rx.recv().await.unwrap().unwrap();
    drop(rfn);

    // Local: never sent, dropped without a call.
    let rfn: F = RFnOnce::new_0(|| async move { Ok(2) });
    drop(rfn);

    tokio::time::sleep(Duration::from_millis(500)).await;
    assert_eq!(PANICS.load(Ordering::SeqCst), 0, "provider task of an unused RFnOnce panicked");
}
