// Replay for the OPEN known finding  property=C18  obligation U8_io.receive_data/a_write_of_a_conforming_sender_is_never_refused_for_its_size
// How to run: append the tests below to remoc/tests/rch/io.rs;  cargo test --offline -p remoc --test tests max_data_size_below_chunk_size
// Observed on the unchanged tree: the receiving endpoint runs Cfg { max_data_size: 1000, ..Default::default() } (accepted by Cfg::check).
// A single 5000-byte write_all plus shutdown (sized or unsized) ends read_to_end with InvalidData "data exceeds maximum allowed size of
// 1000 bytes", and the error is sticky: io::Sender caps a write at the peer's chunk_size only, io::Receiver reads with chmux recv().

// ===== added to: remoc/tests/rch/io.rs =====

// ============================================================================
// Receiving endpoint with Cfg::max_data_size below Cfg::chunk_size
// ============================================================================

/// The bytes read must be exactly the bytes written, whatever the (valid) chmux configuration.
///
/// `Cfg::max_data_size` is documented as not limiting remote channels; a value below
/// `Cfg::chunk_size` passes `Cfg::check`. The io sender writes messages of up to `chunk_size`
/// bytes, the io receiver fetches them with `chmux::Receiver::recv`, which refuses every message
/// larger than `max_data_size`.
#[cfg_attr(not(feature = "js"), tokio::test)]
#[cfg_attr(feature = "js", wasm_bindgen_test)]
async fn sized_max_data_size_below_chunk_size() {
    crate::init();
    let cfg = remoc::chmux::Cfg { max_data_size: 1000, ..Default::default() };
    let ((mut a_tx, _), (_, mut b_rx)) = crate::loop_channel_with_cfg::<io::Receiver>(cfg).await;

    let data: Vec<u8> = (0..5000u32).map(|i| (i % 251) as u8).collect();
    let (mut tx, rx) = io::sized(data.len() as u64);
    a_tx.send(rx).await.unwrap();
    let mut rx = b_rx.recv().await.unwrap().unwrap();

    let to_write = data.clone();
    let write_task = exec::spawn(async move {
        // One write of 5000 bytes: below chunk_size (16384), above max_data_size (1000).
        tx.write_all(&to_write).await.unwrap();
        tx.shutdown().await.unwrap();
    });

    let mut buf = Vec::new();
    let res = tokio::time::timeout(std::time::Duration::from_secs(20), rx.read_to_end(&mut buf))
        .await
        .expect("reading timed out");
    res.expect("reading the written bytes failed");
    assert_eq!(buf, data);

    write_task.await.unwrap();
}

/// Same for a channel of unknown size.
#[cfg_attr(not(feature = "js"), tokio::test)]
#[cfg_attr(feature = "js", wasm_bindgen_test)]
async fn unsized_max_data_size_below_chunk_size() {
    crate::init();
    let cfg = remoc::chmux::Cfg { max_data_size: 1000, ..Default::default() };
    let ((mut a_tx, _), (_, mut b_rx)) = crate::loop_channel_with_cfg::<io::Receiver>(cfg).await;

    let data: Vec<u8> = (0..5000u32).map(|i| (i % 251) as u8).collect();
    let (mut tx, rx) = io::channel();
    a_tx.send(rx).await.unwrap();
    let mut rx = b_rx.recv().await.unwrap().unwrap();

    let to_write = data.clone();
    let write_task = exec::spawn(async move {
        tx.write_all(&to_write).await.unwrap();
        tx.shutdown().await.unwrap();
    });

    let mut buf = Vec::new();
    let res = tokio::time::timeout(std::time::Duration::from_secs(20), rx.read_to_end(&mut buf))
        .await
        .expect("reading timed out");
    res.expect("reading the written bytes failed");
    assert_eq!(buf, data);

    write_task.await.unwrap();
}
