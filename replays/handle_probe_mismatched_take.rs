// Replay for the repaired defect  property=C20  fix 40be936 "do not destroy the value when Handle::into_inner is called at a mismatched type"
// obligation: U16_handle.Handle::into_inner/into_inner_yields_own_value_at_own_type_or_error
// How to run: save as remoc/tests/robj/handle_mismatched_take.rs, add `mod handle_mismatched_take;` to remoc/tests/robj/mod.rs,
//     cargo test --offline -p remoc --test tests handle_mismatched
// Before the fix: after `h.cast::<u32>().into_inner()` returned MismatchedType every correctly typed clone gets Unknown.
//! C20: a cast to another type yields an error -- and nothing else. A failed
//! `into_inner` at the wrong type must not destroy the value for the handles
//! that still have the original type.

use remoc::robj::handle::{Handle, HandleError};

#[tokio::test]
async fn handle_mismatched_into_inner_keeps_value() {
    crate::init();

    let h: Handle<String> = Handle::new("v".to_string());
    let keep = h.clone();

    let wrong = h.cast::<u32>();
    assert!(matches!(wrong.into_inner().await, Err(HandleError::MismatchedType(_))));

    // The take failed, so the value has not been taken.
    assert_eq!(*keep.as_ref().await.expect("value destroyed by failed into_inner at wrong type"), "v");
    assert_eq!(keep.into_inner().await.unwrap(), "v");
}

