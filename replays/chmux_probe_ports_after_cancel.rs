// Replay for the repaired defect  property=C01 (also C10)  fix 0722583 "chmux receiver keeps the port message that follows a cancelled chunked message"
// obligation: U3_receiver.Receiver::recv_chunk/recv_chunk_no_loss (reference `ref_chunk`: a port message met while streaming is NOT consumed)
//             and U3_receiver.Receiver::next_msg/next_msg_delivers_a_message_put_back_first_and_loses_none
// How to run: save as remoc/tests/chmux/hunt_d1.rs, add `mod hunt_d1;` to remoc/tests/chmux/mod.rs,
//     cargo test --offline -p remoc --test tests chmux::hunt_d1
// Before the fix: the sender starts a chunked message (20 bytes), drops the ChunkSender (cancel) and then completes
// Sender::connect(vec![port], true).  Receiver (max_data_size 8): recv_any -> Chunks, recv_chunk.. -> Err(Cancelled) (correct), then
// recv_any() never returns and the sender's Connect resolves to ConnectError::Rejected although nobody rejected the request:
// recv_chunk had consumed the port message, returned its credits and dropped the requests it carried.

//! Defect hunting test for the channel multiplexer (D1).
#![allow(unused_imports)]

use bytes::Bytes;
use futures::{future::try_join, stream::StreamExt};
use std::time::Duration;

use crate::loop_transport;
use remoc::{
    chmux::{self, PortsExhausted, Received, RecvChunkError},
    exec,
    exec::time::{sleep, timeout},
};

fn hunt_cfg() -> chmux::Cfg {
    chmux::Cfg {
        connection_timeout: None,
        max_ports: 20,
        ports_exhausted: PortsExhausted::Fail,
        max_data_size: 1_000_000,
        max_received_ports: 100,
        chunk_size: 16,
        receive_buffer: 64,
        shared_send_queue: 16,
        connect_queue: 4,
        ..Default::default()
    }
}

type End = (chmux::Client, chmux::Listener);

async fn mux_pair(a_cfg: chmux::Cfg, b_cfg: chmux::Cfg) -> (End, End) {
    loop_transport!(0, a_tx, a_rx, b_tx, b_rx);
    let ((a_mux, a_client, a_server), (b_mux, b_client, b_server)) =
        try_join(chmux::ChMux::new(a_cfg, a_tx, a_rx), chmux::ChMux::new(b_cfg, b_tx, b_rx)).await.unwrap();
    exec::spawn(async move {
        let _ = a_mux.run().await;
    });
    exec::spawn(async move {
        let _ = b_mux.run().await;
    });
    ((a_client, a_server), (b_client, b_server))
}

/// A port message (`Sender::connect`) that is sent completely after a chunked data message
/// has been cancelled must reach the receiver: `recv_chunk` reports the cancellation and the
/// following `recv_any` must deliver the port requests, just as it delivers a data message
/// that follows a cancelled one.
#[tokio::test]
async fn ports_after_cancelled_chunked_message() {
    crate::init();

    let ((a_client, _a_server), (_b_client, mut b_server)) = mux_pair(hunt_cfg(), hunt_cfg()).await;

    let (conn, acc) = tokio::join!(a_client.connect(), b_server.accept());
    let (mut tx, _a_rx) = conn.unwrap();
    let (_b_tx, mut rx) = acc.unwrap().unwrap();

    // Force the receiver into chunk mode.
    rx.set_max_data_size(8);

    // Start a chunked message and cancel it.
    let cs = tx.send_chunks();
    let cs = cs.send(Bytes::from(vec![1u8; 20])).await.unwrap();
    drop(cs);

    // Then send a complete port message.
    let port = tx.port_allocator().allocate().await;
    let sender_task = exec::spawn(async move {
        let mut connects = tx.connect(vec![port.into()], true).await.unwrap();
        let res = connects.pop().unwrap().await;
        (tx, res)
    });

    // Receiver side.
    match timeout(Duration::from_secs(5), rx.recv_any()).await.unwrap().unwrap() {
        Some(Received::Chunks) => (),
        other => panic!("expected chunks, got {other:?}"),
    }
    let mut got = 0;
    loop {
        match timeout(Duration::from_secs(5), rx.recv_chunk()).await.unwrap() {
            Ok(Some(chunk)) => got += chunk.len(),
            Ok(None) => panic!("cancelled message reported as complete"),
            Err(RecvChunkError::Cancelled) => break,
            Err(err) => panic!("unexpected error: {err}"),
        }
    }
    assert_eq!(got, 20);

    // The port message was sent completely, so it must be delivered.
    let reqs = match timeout(Duration::from_secs(3), rx.recv_any()).await {
        Ok(Ok(Some(Received::Requests(reqs)))) => reqs,
        Ok(other) => panic!("expected port requests after the cancelled message, got {other:?}"),
        Err(_) => panic!("port message sent after a cancelled chunked message was never delivered"),
    };
    assert_eq!(reqs.len(), 1);
    let (accepted, sender_res) =
        tokio::join!(async { reqs.into_iter().next().unwrap().accept().await }, async {
            sender_task.await.unwrap()
        });
    accepted.unwrap();
    sender_res.1.unwrap();
}
