//! C09 / C05 replay: a value with many embedded channel halves over a stream transport (`Connect::io`).
//! One PortData message may list up to chunk_size / 4 ports (the dispatcher accepts `4 * ports <= chunk_size`), and with
//! port ids (protocol version 3) every port takes 8 bytes on the wire: 6 + 8 * n bytes.  The length-delimited reader is
//! capped at MAX_MSG_LENGTH + chunk_size = 16 + chunk_size bytes, so a well-formed message with more than
//! (chunk_size + 10) / 8 ports is refused by the receiving endpoint's own framing and the connection dies.
use remoc::{exec, rch::{base, oneshot}};
use std::time::Duration;
use tokio::time::timeout;

#[tokio::test]
async fn many_embedded_halves_over_stream_transport() {
    const N: usize = 3000; // default chunk_size 16384: 6 + 8 * 3000 = 24006 > 16 + 16384
    let (a_io, b_io) = tokio::io::duplex(1 << 20);
    let (a_rd, a_wr) = tokio::io::split(a_io);
    let (b_rd, b_wr) = tokio::io::split(b_io);
    let cfg = remoc::Cfg::default();
    let a = remoc::Connect::io::<_, _, Vec<oneshot::Sender<u32>>, (), remoc::codec::Default>(cfg.clone(), a_rd, a_wr);
    let b = remoc::Connect::io::<_, _, (), Vec<oneshot::Sender<u32>>, remoc::codec::Default>(cfg, b_rd, b_wr);
    let (a, b) = tokio::join!(a, b);
    let (a_conn, mut a_tx, _a_rx): (_, base::Sender<Vec<oneshot::Sender<u32>>>, base::Receiver<()>) = a.unwrap();
    let (b_conn, _b_tx, mut b_rx): (_, base::Sender<()>, base::Receiver<Vec<oneshot::Sender<u32>>>) = b.unwrap();
    exec::spawn(async move { let _ = a_conn.await; });
    let b_conn = exec::spawn(b_conn);

    let mut txs = Vec::new();
    let mut rxs = Vec::new();
    for _ in 0..N {
        let (tx, rx) = oneshot::channel::<u32, remoc::codec::Default>();
        txs.push(tx);
        rxs.push(rx);
    }
    let send = exec::spawn(async move { a_tx.send(txs).await.map(|_| a_tx) });
    let got = timeout(Duration::from_secs(20), b_rx.recv()).await.expect("receive of the value hangs");
    match got {
        Ok(Some(v)) => {
            assert_eq!(v.len(), N);
            for (i, tx) in v.into_iter().enumerate() {
                tx.send(i as u32).unwrap();
            }
            for (i, rx) in rxs.into_iter().enumerate() {
                assert_eq!(timeout(Duration::from_secs(20), rx).await.expect("half not connected").unwrap(), i as u32);
            }
        }
        other => {
            let conn = timeout(Duration::from_secs(5), b_conn).await;
            panic!("a well-formed message with {N} ports was not received: {other:?}; receiving dispatcher: {conn:?}");
        }
    }
    let _ = send.await;
}
