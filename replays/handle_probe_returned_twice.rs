// Replay for the repaired defect  property=C20  fix 77442ef "keep the storage entry of a handle when it is received back"
// obligation: U16_handle.Handle::deserialize::state/receiving_a_handle_back_leaves_the_storage_untouched
// How to run: save as remoc/tests/robj/handle_returned_twice.rs, add `mod handle_returned_twice;` to remoc/tests/robj/mod.rs,
//     cargo test --offline -p remoc --test tests handle_returned_twice
// Before the fix all 3 tests fail (second returned clone / second round trip -> HandleError::Unknown; value released early).
//! C20: a handle can be turned back into its value on the endpoint that created it --
//! every time, for every clone, and the stored value lives until every handle on
//! every endpoint is gone.

use std::{
    sync::{
        Arc,
        atomic::{AtomicBool, Ordering},
    },
    time::Duration,
};

use crate::loop_channel;
use remoc::robj::handle::{Handle, HandleError};

/// The remote endpoint clones the handle and sends both clones back, one after the other.
/// Both must dereference on the creating endpoint.
#[tokio::test]
async fn handle_clones_both_sent_back() {
    crate::init();
    let ((mut a_tx, mut a_rx), (mut b_tx, mut b_rx)) = loop_channel::<Handle<String>>().await;

    let h = Handle::new("v".to_string());
    a_tx.send(h).await.unwrap();
    let r = b_rx.recv().await.unwrap().unwrap();
    let r2 = r.clone();

    b_tx.send(r).await.unwrap();
    let l1 = a_rx.recv().await.unwrap().unwrap();
    assert_eq!(*l1.as_ref().await.unwrap(), "v");

    b_tx.send(r2).await.unwrap();
    let l2 = a_rx.recv().await.unwrap().unwrap();
    assert_eq!(*l2.as_ref().await.expect("second clone sent back must resolve"), "v");
    assert_eq!(*l1.as_ref().await.unwrap(), "v");
}

/// The same handle makes the round trip creating endpoint -> remote -> creating endpoint twice.
#[tokio::test]
async fn handle_round_trip_twice() {
    crate::init();
    let ((mut a_tx, mut a_rx), (mut b_tx, mut b_rx)) = loop_channel::<Handle<String>>().await;

    let h = Handle::new("v".to_string());
    a_tx.send(h).await.unwrap();
    let r = b_rx.recv().await.unwrap().unwrap();
    b_tx.send(r).await.unwrap();
    let l1 = a_rx.recv().await.unwrap().unwrap();
    assert_eq!(*l1.as_ref().await.unwrap(), "v");

    a_tx.send(l1).await.unwrap();
    let r = b_rx.recv().await.unwrap().unwrap();
    assert!(matches!(r.as_ref().await, Err(HandleError::Unknown)));
    b_tx.send(r).await.unwrap();
    let l2 = a_rx.recv().await.unwrap().unwrap();
    assert_eq!(*l2.as_ref().await.expect("second round trip must resolve"), "v");
}

#[derive(Clone)]
struct DropFlag(Arc<AtomicBool>);
impl Drop for DropFlag {
    fn drop(&mut self) {
        self.0.store(true, Ordering::SeqCst);
    }
}

/// The value must stay alive as long as a handle exists on the remote endpoint,
/// also after another clone came back and was dropped.
#[tokio::test]
async fn handle_value_not_released_while_remote_handle_alive() {
    crate::init();
    let ((mut a_tx, mut a_rx), (mut b_tx, mut b_rx)) = loop_channel::<Handle<DropFlag>>().await;

    let flag = Arc::new(AtomicBool::new(false));
    let h = Handle::new(DropFlag(flag.clone()));
    a_tx.send(h).await.unwrap();
    let r = b_rx.recv().await.unwrap().unwrap();
    let r2 = r.clone();

    b_tx.send(r).await.unwrap();
    let l1 = a_rx.recv().await.unwrap().unwrap();
    assert!(l1.as_ref().await.is_ok());
    drop(l1);
    tokio::time::sleep(Duration::from_millis(200)).await;
    assert!(!flag.load(Ordering::SeqCst), "value released while a remote handle is still alive");

    b_tx.send(r2).await.unwrap();
    let l2 = a_rx.recv().await.unwrap().unwrap();
    assert!(l2.as_ref().await.is_ok());
}

