// Replay for the OPEN known finding  property=C06  obligation U4_mux.ChMux::recv_task::message_arm/the_silence_timeout_keeps_watching_after_the_peers_goodbye
// How to run: save as remoc/tests/chmux/hunt_d3_stall_after_goodbye.rs, add `mod hunt_d3_stall_after_goodbye;` to remoc/tests/chmux/mod.rs,  cargo test --offline -p remoc --test tests chmux::hunt_d3
// Observed on the unchanged tree (virtual clock, both endpoints connection_timeout 1 s): direction A->B goes silent (pipe stays open,
// delivers and reports nothing); B calls Client::terminate() (sends Goodbye).  B fails with Timeout after 1 s (correct).  A's dispatcher and
// a pending rx.recv() on A still hang after 60 s: recv_task ended when it had passed B's Goodbye on, nobody watches the connection any more.
// The control (same stall, no Goodbye) passes.

//! Defect hunting, round 2: no timeout after Goodbye has been received

#![allow(unused_imports, dead_code)]

use bytes::Bytes;
use futures::{future::try_join, stream::StreamExt};
use std::time::Duration;

use crate::loop_transport;
use remoc::{
    chmux::{self, ConnectError, PortsExhausted},
    exec,
};

fn base_cfg() -> chmux::Cfg {
    chmux::Cfg { connection_timeout: None, ..Default::default() }
}

/// A one-directional pipe of frames that can be stalled silently: when stalled it neither
/// delivers, nor accepts, nor reports anything.
fn stallable_pipe() -> (
    futures::channel::mpsc::Sender<Bytes>,
    impl futures::Stream<Item = Result<Bytes, std::io::Error>> + Send + Sync + Unpin,
    tokio::sync::watch::Sender<bool>,
) {
    use futures::SinkExt;

    let (in_tx, mut in_rx) = futures::channel::mpsc::channel::<Bytes>(0);
    let (mut out_tx, out_rx) = futures::channel::mpsc::channel::<Bytes>(0);
    let (stall_tx, mut stall_rx) = tokio::sync::watch::channel(false);

    exec::spawn(async move {
        loop {
            if *stall_rx.borrow_and_update() {
                // Keep both ends open, but do nothing anymore.
                let _keep = (&mut in_rx, &mut out_tx);
                futures::future::pending::<()>().await;
            }

            tokio::select! {
                biased;
                _ = stall_rx.changed() => (),
                frame = in_rx.next() => {
                    match frame {
                        Some(frame) => {
                            if out_tx.send(frame).await.is_err() {
                                break;
                            }
                        }
                        None => break,
                    }
                }
            }
        }
    });

    (in_tx, out_rx.map(Ok::<_, std::io::Error>), stall_tx)
}

/// C06: the transport goes silent in direction A->B right after B has sent its Goodbye frame.
/// The dispatcher of A has a connection timeout of 1 s and must terminate; all operations on A
/// must complete.
#[tokio::test(start_paused = true)]
async fn stall_after_goodbye_received() {
    crate::init();

    let cfg = chmux::Cfg { connection_timeout: Some(Duration::from_secs(1)), ..Default::default() };

    let (a_tx, b_rx, stall_ab) = stallable_pipe();
    let (b_tx, a_rx, _stall_ba) = stallable_pipe();

    let ((a_mux, a_client, _a_server), (b_mux, b_client, mut b_server)) =
        try_join(chmux::ChMux::new(cfg.clone(), a_tx, a_rx), chmux::ChMux::new(cfg.clone(), b_tx, b_rx))
            .await
            .unwrap();
    let a = exec::spawn(a_mux.run());
    let b = exec::spawn(b_mux.run());

    let acc = exec::spawn(async move { b_server.accept().await.unwrap().unwrap() });
    let (mut tx, mut rx) = a_client.connect().await.unwrap();
    let (mut btx, mut brx) = acc.await.unwrap();

    // The connection works.
    tx.send(Bytes::from_static(b"ping")).await.unwrap();
    assert_eq!(Bytes::from(brx.recv().await.unwrap().unwrap()), Bytes::from_static(b"ping"));
    btx.send(Bytes::from_static(b"pong")).await.unwrap();
    assert_eq!(Bytes::from(rx.recv().await.unwrap().unwrap()), Bytes::from_static(b"pong"));

    // Direction A->B goes silent, then B terminates the connection.
    stall_ab.send(true).unwrap();
    tokio::task::yield_now().await;
    b_client.terminate();

    // B gets no Goodbye back and gives up after its timeout.
    let b_res = tokio::time::timeout(Duration::from_secs(10), b).await.expect("dispatcher B hangs").unwrap();
    println!("dispatcher B: {b_res:?}");

    // A pending receive on A must complete.
    let recv = tokio::time::timeout(Duration::from_secs(60), rx.recv()).await;
    println!("A recv: {recv:?}");

    // So must the dispatcher of A.
    let a_res = tokio::time::timeout(Duration::from_secs(60), a).await;
    println!("dispatcher A: {a_res:?}");

    assert!(recv.is_ok(), "receive on A hangs for 60 s although the connection timeout is 1 s");
    assert!(a_res.is_ok(), "dispatcher A hangs for 60 s although the connection timeout is 1 s");
}

/// Control for `stall_after_goodbye_received`: the same stall without a Goodbye from B.
#[tokio::test(start_paused = true)]
async fn control_stall_without_goodbye() {
    crate::init();

    let cfg = chmux::Cfg { connection_timeout: Some(Duration::from_secs(1)), ..Default::default() };

    let (a_tx, b_rx, stall_ab) = stallable_pipe();
    let (b_tx, a_rx, _stall_ba) = stallable_pipe();

    let ((a_mux, a_client, _a_server), (b_mux, _b_client, mut b_server)) =
        try_join(chmux::ChMux::new(cfg.clone(), a_tx, a_rx), chmux::ChMux::new(cfg.clone(), b_tx, b_rx))
            .await
            .unwrap();
    let a = exec::spawn(a_mux.run());
    let b = exec::spawn(b_mux.run());

    let acc = exec::spawn(async move { b_server.accept().await.unwrap().unwrap() });
    let (_tx, mut rx) = a_client.connect().await.unwrap();
    let (_btx, _brx) = acc.await.unwrap();

    stall_ab.send(true).unwrap();

    let b_res = tokio::time::timeout(Duration::from_secs(10), b).await.expect("dispatcher B hangs").unwrap();
    println!("dispatcher B: {b_res:?}");
    let recv = tokio::time::timeout(Duration::from_secs(60), rx.recv()).await;
    println!("A recv: {recv:?}");
    let a_res = tokio::time::timeout(Duration::from_secs(60), a).await;
    println!("dispatcher A: {a_res:?}");
    assert!(matches!(recv, Ok(Err(_))));
    assert!(matches!(a_res, Ok(Ok(Err(_)))));
}
