// Replay for the repaired defect  property=C10  fix 78aeedc "Listener::accept notices the dropped client while all local ports are in use"
// (a REGRESSION of MY OWN earlier repair d647623, found by the round that reviewed my repairs)
// obligation: U11_listener.Listener::accept::wait_queue_arm_guard/the_end_of_the_waiting_requests_is_noticed_without_a_free_port
//             (the hang itself -- progress without a free port -- is not decided by a contract; see DESIGN 12.3)
// How to run: save as remoc/tests/chmux/review_listener.rs, add `mod review_listener;` to remoc/tests/chmux/mod.rs,
//     cargo test --offline -p remoc --test tests review_listener
// Before the fix (since d647623): endpoint B has max_ports = 1 and one connection open; the remote client is dropped, no request pending:
// b_listener.accept() never returns (with d647623^ it returned Ok(None) at once).

//! Review of d647623 (listener hands out every request sent before the remote client was dropped).

use futures::{future::try_join, stream::StreamExt};
use std::time::Duration;

use crate::loop_transport;
use remoc::{chmux, exec};

fn cfg(max_ports: u32) -> chmux::Cfg {
    chmux::Cfg { connection_timeout: Some(Duration::from_secs(5)), max_ports, ..Default::default() }
}

/// `Listener::accept` is documented to return `None` when the client of the remote endpoint has
/// been dropped and no more connection requests can be made.
///
/// Here the listening endpoint has all its local ports in use (one port, one open connection),
/// the remote client is dropped and no request is pending. `accept` must report `None`.
#[tokio::test]
async fn accept_reports_dropped_client_while_ports_are_in_use() {
    crate::init();

    loop_transport!(0, a_tx, a_rx, b_tx, b_rx);
    let ((a_mux, a_client, _a_listener), (b_mux, _b_client, mut b_listener)) =
        try_join(chmux::ChMux::new(cfg(16), a_tx, a_rx), chmux::ChMux::new(cfg(1), b_tx, b_rx)).await.unwrap();
    exec::spawn(async move {
        let _ = a_mux.run().await;
    });
    exec::spawn(async move {
        let _ = b_mux.run().await;
    });

    // One connection, it takes the only local port of B.
    let (conn, accepted) = tokio::join!(a_client.connect(), b_listener.accept());
    let (_a_tx, _a_rx) = conn.unwrap();
    let (_b_tx, _b_rx) = accepted.unwrap().unwrap();

    // The remote client goes away. No request is pending.
    drop(a_client);
    tokio::time::sleep(Duration::from_millis(200)).await;

    // The listener must learn that no more requests can arrive.
    let res = tokio::time::timeout(Duration::from_secs(2), b_listener.accept()).await;
    match res {
        Ok(Ok(None)) => (),
        Ok(Ok(Some(_))) => panic!("accepted a connection nobody requested"),
        Ok(Err(err)) => panic!("accept failed: {err}"),
        Err(_) => panic!(
            "Listener::accept hangs although the remote client has been dropped and no request is pending \
             (the connection is healthy, its only local port is in use)"
        ),
    }
}
