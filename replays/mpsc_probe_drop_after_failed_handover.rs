// Replay for the repaired defect  property=C11  fix f0389fa "an mpsc receiver whose hand-over did not take place announces its drop"
// obligation: U14_mpsc.Receiver::drop/mpsc_drop_classification
// How to run: append the test below to remoc/tests/rch/mpsc.rs, then  cargo test --offline -p remoc --test tests probe_receiver_dropped_after
// Before the fix: "closed_reason after drop: None, is_closed: false" although every send on the channel fails.


/// probe: handing a receiver over fails (item too large for the carrying channel); the receiver comes back and is dropped
/// later -- its senders must learn that it was dropped.
#[tokio::test]
async fn probe_receiver_dropped_after_failed_handover() {
    use remoc::rch::{ClosedReason, mpsc};
    crate::init();
    let ((mut a_tx, _), (_, _b_rx)) = crate::loop_channel::<mpsc::Receiver<u32>>().await;
    a_tx.set_max_item_size(1);

    let (tx, rx) = mpsc::channel::<u32, remoc::codec::Default>(4);
    let rx = match a_tx.send(rx).await {
        Ok(()) => panic!("send of an oversized item succeeded"),
        Err(err) => {
            println!("send failed as intended: {}", err.kind);
            err.item
        }
    };
    // the receiver is back and still works
    tx.send(7).await.unwrap();
    let mut rx = rx;
    assert_eq!(rx.recv().await.unwrap(), Some(7));

    drop(rx);
    tokio::time::sleep(std::time::Duration::from_millis(200)).await;
    println!("closed_reason after drop: {:?}, is_closed: {}", tx.closed_reason(), tx.is_closed());
    assert_eq!(tx.closed_reason(), Some(ClosedReason::Dropped), "senders were not told that the receiver was dropped");
}
