// Replay for the repaired defect  property=C11  fix 7278de1 "mpsc close and error notices reach the remote sender while the local queue is full"
// obligation: U17_mpsc_loops.recv_impl::data_arm/receiving_never_waits_for_queue_space_inside_the_arm
// How to run: save as remoc/tests/rch/hunt_h_mpsc_close.rs, add `mod hunt_h_mpsc_close;` to remoc/tests/rch/mod.rs,
//     cargo test --offline -p remoc --test tests hunt_h_mpsc_close
// Before the fix: an mpsc channel whose receiver lives on the other endpoint (receive buffer 2); the sender sends 8 values, the receiver
// does not read and calls rx.close(): tx.closed() never resolves, closed_reason() stays None -- recv_impl sat in tx.send(..).await
// inside the receive arm, so the branch that sends BACKCHANNEL_MSG_CLOSE was not polled.

//! Close/drop classification of typed channels.

use std::time::Duration;
use tokio::time::timeout;

use crate::loop_channel;
use remoc::rch::{ClosedReason, mpsc};

/// Closing the receiver of a remote mpsc channel must reach the sender, also when the receiver
/// has not (yet) taken the values that were sent to it before.
#[tokio::test]
async fn mpsc_close_reaches_sender_with_unread_values() {
    crate::init();
    let ((mut a_tx, _), (_, mut b_rx)) = loop_channel::<mpsc::Receiver<u32>>().await;

    let (tx, rx) = mpsc::channel(16);
    a_tx.send(rx).await.unwrap();
    let mut rx = b_rx.recv().await.unwrap().unwrap();

    // More values than the receive buffer (2) holds.
    for i in 0..8 {
        let _ = tx.send(i).await.unwrap();
    }
    tokio::time::sleep(Duration::from_millis(300)).await;

    rx.close();

    if timeout(Duration::from_secs(3), tx.closed()).await.is_err() {
        panic!("close of receiver did not reach sender; closed_reason = {:?}", tx.closed_reason());
    }
    assert_eq!(tx.closed_reason(), Some(ClosedReason::Closed));

    // Everything sent before is still delivered.
    let mut got = Vec::new();
    while let Some(v) = timeout(Duration::from_secs(3), rx.recv()).await.unwrap().unwrap() {
        got.push(v);
    }
    println!("received after close: {got:?}");
    assert!(got.iter().copied().eq(0..got.len() as u32), "not a prefix: {got:?}");
}
