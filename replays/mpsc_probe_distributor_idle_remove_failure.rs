// Replay for the KNOWN FINDINGS of the rch::mpsc Distributor  property=C11 / C04
// obligations (all in U14_mpsc.Distributor::distribute::item_arm):
//   the_distributor_does_not_wait_for_upstream_while_it_holds_a_subscribers_slot   (C11)  -> module idle, module upstream_end
//   a_removed_subscriber_gets_nothing_more                                          (C04)  -> module remove: REPAIRED by adfc516 (its first two
//                                                                                          tests pass now; the third belongs to the idle finding)
//   a_failure_of_the_distributed_channel_reaches_the_subscribers_as_a_failure       (C11)  -> module failure
// How to run: save the four modules below as remoc/tests/rch/mpsc_distributor_{idle,remove,failure,upstream_end}.rs, add the four
// `mod` lines to remoc/tests/rch/mod.rs,  timeout 300 cargo test --offline -p remoc --test tests mpsc_distributor
// All fail (or time out) on the current tree, except the control test in the failure module and the first two tests of module remove.

// ======================= remoc/tests/rch/mpsc_distributor_idle.rs =======================
//! While the mpsc distributor waits for the next upstream value it holds a reserved slot of
//! one subscriber and watches nothing else: a subscriber that is dropped or closed in that
//! state goes unnoticed until the upstream sender happens to send another value.

use std::time::Duration;

use remoc::{
    exec::time::{sleep, timeout},
    rch::mpsc,
};

const SETTLE: Duration = Duration::from_millis(200);
const LIMIT: Duration = Duration::from_secs(2);

/// `Distributor::closed`: "The distributor closes when all subscribers are closed and
/// `wait_on_empty` is false". The upstream sender must learn of it as well (C11: dropping a
/// receiver eventually becomes observable at the other half).
#[tokio::test]
async fn distributor_closes_when_only_subscriber_dropped() {
    crate::init();
    let (tx, rx): (mpsc::Sender<i32>, mpsc::Receiver<i32>) = mpsc::channel(4);
    let dist = rx.distribute(false);

    let (sub_rx, _handle) = dist.subscribe().await.unwrap();
    // Let the distributor settle: it is now waiting for the next upstream value.
    sleep(SETTLE).await;

    drop(sub_rx);

    timeout(LIMIT, dist.closed())
        .await
        .expect("distributor (wait_on_empty = false) did not close although its only subscriber was dropped");
    timeout(LIMIT, tx.closed()).await.expect("upstream sender was not told that nobody receives anymore");
}

/// `DistributedReceiverHandle::closed`: "Waits for the associated receiver to be closed or
/// fail due to an error."
#[tokio::test]
async fn handle_closed_resolves_when_subscriber_dropped() {
    crate::init();
    let (_tx, rx): (mpsc::Sender<i32>, mpsc::Receiver<i32>) = mpsc::channel(4);
    let dist = rx.distribute(true);

    let (a_rx, mut a_handle) = dist.subscribe().await.unwrap();
    let (_b_rx, _b_handle) = dist.subscribe().await.unwrap();
    sleep(SETTLE).await;

    drop(a_rx);

    timeout(LIMIT, a_handle.closed())
        .await
        .expect("DistributedReceiverHandle::closed did not resolve although its receiver was dropped");
}

/// A subscriber that closes its receiver (instead of dropping it) drains it and expects
/// end-of-stream (`Receiver::close`: "allows to process outstanding values while stopping the
/// sender from sending new values").
#[tokio::test]
async fn closed_subscriber_reaches_end_of_stream() {
    crate::init();
    let (_tx, rx): (mpsc::Sender<i32>, mpsc::Receiver<i32>) = mpsc::channel(4);
    let dist = rx.distribute(true);

    let (mut a_rx, _a_handle) = dist.subscribe().await.unwrap();
    sleep(SETTLE).await;

    a_rx.close();

    let res = timeout(LIMIT, a_rx.recv()).await.expect("closed subscriber never reaches end-of-stream");
    assert!(matches!(res, Ok(None)), "unexpected: {res:?}");
}

// ======================= remoc/tests/rch/mpsc_distributor_remove.rs =======================
//! `DistributedReceiverHandle::remove` ("Removes the associated receiver from the distributor")
//! is not honoured while the distributor waits for the next upstream value with the slot of
//! the removed subscriber in hand: the next value still goes to the removed subscriber.

use std::time::Duration;

use remoc::{
    exec::time::{sleep, timeout},
    rch::mpsc,
};

const SETTLE: Duration = Duration::from_millis(200);
const LIMIT: Duration = Duration::from_secs(2);

/// After `remove()` the removed receiver gets nothing more; the value sent afterwards must go
/// to the remaining live subscriber.
#[tokio::test]
async fn value_sent_after_remove_goes_to_remaining_subscriber() {
    crate::init();
    let (tx, rx): (mpsc::Sender<i32>, mpsc::Receiver<i32>) = mpsc::channel(4);
    let dist = rx.distribute(true);

    let (mut a_rx, a_handle) = dist.subscribe().await.unwrap();
    let (mut b_rx, _b_handle) = dist.subscribe().await.unwrap();
    sleep(SETTLE).await;

    // A leaves the distribution; a generous amount of time passes.
    a_handle.remove();
    sleep(SETTLE).await;

    // The application has handed A's work over and stops looking at `a_rx` (it is kept alive
    // here only so that the outcome can be inspected).
    tx.send(7).await.unwrap();

    let b_got = timeout(LIMIT, b_rx.recv()).await;
    let a_got = timeout(LIMIT, a_rx.recv()).await;
    println!("B got {b_got:?}, A got {a_got:?}");

    assert!(
        matches!(a_got, Ok(Ok(None))),
        "the removed subscriber must see end-of-stream and nothing else, but got {a_got:?}"
    );
    assert!(matches!(b_got, Ok(Ok(Some(7)))), "the remaining subscriber must get the value, but got {b_got:?}");
}

/// A removed subscriber sees end-of-stream without having to wait for upstream traffic.
#[tokio::test]
async fn removed_subscriber_reaches_end_of_stream() {
    crate::init();
    let (_tx, rx): (mpsc::Sender<i32>, mpsc::Receiver<i32>) = mpsc::channel(4);
    let dist = rx.distribute(true);

    let (mut a_rx, a_handle) = dist.subscribe().await.unwrap();
    sleep(SETTLE).await;

    a_handle.remove();

    let res = timeout(LIMIT, a_rx.recv()).await.expect("removed subscriber never reaches end-of-stream");
    assert!(matches!(res, Ok(None)), "unexpected: {res:?}");
}

/// The application removes a subscriber and, some time later, drops its receiver. A value
/// sent long after the removal (and before the drop) must not vanish from the middle of the
/// distributed stream.
#[tokio::test]
async fn value_sent_after_remove_is_not_lost() {
    crate::init();
    let (tx, rx): (mpsc::Sender<i32>, mpsc::Receiver<i32>) = mpsc::channel(4);
    let dist = rx.distribute(true);

    let (a_rx, a_handle) = dist.subscribe().await.unwrap();
    let (mut b_rx, _b_handle) = dist.subscribe().await.unwrap();
    sleep(SETTLE).await;

    a_handle.remove();
    sleep(SETTLE).await;

    tx.send(7).await.unwrap();
    tx.send(8).await.unwrap();
    tx.send(9).await.unwrap();
    sleep(SETTLE).await;
    drop(a_rx);
    drop(tx);

    let mut got = Vec::new();
    while let Ok(Ok(Some(v))) = timeout(LIMIT, b_rx.recv()).await {
        got.push(v);
    }
    assert_eq!(got, vec![7, 8, 9], "values sent after A's removal must all reach the remaining subscriber B");
}

// ======================= remoc/tests/rch/mpsc_distributor_failure.rs =======================
//! When the upstream channel of an mpsc distributor fails (connection lost), the subscribers
//! are not told: each of them sees a regular end-of-stream, exactly as if the upstream
//! sender had been dropped after sending everything.

use std::time::Duration;

use remoc::{
    exec::time::{sleep, timeout},
    rch::mpsc,
};

use crate::droppable_loop_channel;

const SETTLE: Duration = Duration::from_millis(200);
const LIMIT: Duration = Duration::from_secs(5);

#[tokio::test]
async fn upstream_failure_reaches_subscribers_as_failure() {
    crate::init();
    let ((mut a_tx, _), (_, mut b_rx), conn) = droppable_loop_channel::<mpsc::Receiver<i16>>().await;

    let (tx, rx) = mpsc::channel(16);
    a_tx.send(rx).await.unwrap();
    let mut rx = b_rx.recv().await.unwrap().unwrap();

    // Reference: the plain remote receiver works ...
    tx.send(1).await.unwrap();
    assert_eq!(rx.recv().await.unwrap(), Some(1));

    // ... and is now distributed over two subscribers.
    let dist = rx.distribute(true);
    let (mut s1, _h1) = dist.subscribe().await.unwrap();
    let (mut s2, _h2) = dist.subscribe().await.unwrap();
    sleep(SETTLE).await;

    // The connection that carries the upstream channel is lost; the sender is still alive and
    // has more to send.
    drop(conn);
    tx.closed().await;
    assert_eq!(tx.closed_reason(), Some(remoc::rch::ClosedReason::Failed));

    let r1 = timeout(LIMIT, s1.recv()).await.expect("subscriber 1 learns nothing");
    let r2 = timeout(LIMIT, s2.recv()).await.expect("subscriber 2 learns nothing");
    println!("subscriber 1: {r1:?}, subscriber 2: {r2:?}");

    // A plain mpsc receiver reports Err(RecvError::RemoteReceive(..)) here (a final error).
    assert!(
        matches!(&r1, Err(err) if err.is_final()),
        "subscriber 1 must see the upstream failure, but got {r1:?} (end-of-stream with messages missing)"
    );
    assert!(
        matches!(&r2, Err(err) if err.is_final()),
        "subscriber 2 must see the upstream failure, but got {r2:?} (end-of-stream with messages missing)"
    );
}

/// Control: without the distributor the receiver does report the failure.
#[tokio::test]
async fn control_plain_receiver_reports_failure() {
    crate::init();
    let ((mut a_tx, _), (_, mut b_rx), conn) = droppable_loop_channel::<mpsc::Receiver<i16>>().await;

    let (tx, rx) = mpsc::channel(16);
    a_tx.send(rx).await.unwrap();
    let mut rx = b_rx.recv().await.unwrap().unwrap();
    tx.send(1).await.unwrap();
    assert_eq!(rx.recv().await.unwrap(), Some(1));

    drop(conn);
    tx.closed().await;

    let r = timeout(LIMIT, rx.recv()).await.expect("receiver learns nothing");
    assert!(matches!(&r, Err(err) if err.is_final()), "got {r:?}");
}

// ======================= remoc/tests/rch/mpsc_distributor_upstream_end.rs =======================
//! `Distributor::closed`: "The distributor closes when all subscribers are closed and
//! `wait_on_empty` is false, or when the upstream sender is dropped or fails."
//! Without a subscriber the distributor never looks at the upstream channel.

use std::time::Duration;

use remoc::{exec::time::timeout, rch::mpsc};

const LIMIT: Duration = Duration::from_secs(2);

#[tokio::test]
async fn upstream_end_without_subscriber_closes_distributor() {
    crate::init();
    let (tx, rx): (mpsc::Sender<i32>, mpsc::Receiver<i32>) = mpsc::channel(4);
    let dist = rx.distribute(true);
    drop(tx);
    timeout(LIMIT, dist.closed())
        .await
        .expect("distributor without subscriber does not notice that the upstream sender was dropped");
}

/// The same after the last subscriber has left.
#[tokio::test]
async fn upstream_end_after_last_subscriber_left_closes_distributor() {
    crate::init();
    let (tx, rx): (mpsc::Sender<i32>, mpsc::Receiver<i32>) = mpsc::channel(4);
    let dist = rx.distribute(true);
    let (mut a_rx, _a_handle) = dist.subscribe().await.unwrap();
    tx.send(1).await.unwrap();
    assert_eq!(a_rx.recv().await.unwrap(), Some(1));
    drop(a_rx);
    // lets the distributor notice that A is gone (it does so on the next value)
    tx.send(2).await.unwrap();
    remoc::exec::time::sleep(Duration::from_millis(200)).await;
    drop(tx);
    timeout(LIMIT, dist.closed())
        .await
        .expect("distributor without subscriber does not notice that the upstream sender was dropped");
}

