// Replay for the OPEN known finding  property=C11  obligation U25_bin_forward.Receiver::forward/a_failed_relay_does_not_end_the_downstream_stream_as_if_complete
// How to run: save as remoc/tests/rch/hunt_d3.rs, add `mod hunt_d3;` to remoc/tests/rch/mod.rs,  cargo test --offline -p remoc --test tests rch::hunt_d3
// Observed on the unchanged tree: bin receiver sent A -> B, handed on B -> C over a second connection.  A sends "one" (C receives it), A's
// sender stays alive, the connection A-B is cut.  C's rx.recv() returns Ok(None) -- exactly what it returns when the sender was dropped after
// having sent everything (a direct channel yields Err(RecvError::ChMux)).  bin::{Receiver,Sender}::forward only debug-log the ForwardError
// and drop the outgoing sender (SendFinish).

//! Connection failure upstream of a forwarded bin channel as seen by the final receiver.

use bytes::Bytes;
use std::time::Duration;

use crate::loop_channel;
use remoc::{exec::time::timeout, rch::bin};

const T: Duration = Duration::from_secs(10);

/// C11: failure of the upstream connection of a forwarded bin channel must not look like a
/// regular end of stream to the final receiver.
#[tokio::test]
async fn hunt_bin_forward_conn_failure_classification() {
    crate::init();
    let ((mut a_tx, a_rx), (b_tx, mut b_rx), conn1) = crate::droppable_loop_channel::<bin::Receiver>().await;
    let ((mut c_tx, _c_rx), (_d_tx, mut d_rx)) = loop_channel::<bin::Receiver>().await;

    let (tx, rx) = bin::channel();
    a_tx.send(rx).await.unwrap();
    let rx = b_rx.recv().await.unwrap().unwrap();
    c_tx.send(rx).await.unwrap();
    let rx = d_rx.recv().await.unwrap().unwrap();

    let mut tx = tx.into_inner().await.unwrap();
    let mut rx = rx.into_inner().await.unwrap();

    tx.send(Bytes::from_static(b"one")).await.unwrap();
    let d = timeout(T, rx.recv()).await.unwrap().unwrap().unwrap();
    assert_eq!(Bytes::from(d), Bytes::from_static(b"one"));

    // Cut the first connection, sender is still alive and has not finished.
    drop(conn1);
    let _keep = (a_rx, b_tx);

    match timeout(T, rx.recv()).await.expect("failure not observable at the receiver") {
        Ok(None) => panic!("connection failure reported as regular end of stream"),
        Ok(Some(_)) => panic!("data from nowhere"),
        Err(err) => println!("receiver error: {err}"),
    }
    drop(tx);
}
