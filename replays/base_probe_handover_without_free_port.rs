// Replay for the KNOWN FINDING  property=C10
// obligation: U10_base_ports.PortDeserializer::accept/a_hand_over_that_finds_no_free_port_is_refused_with_the_true_reason
// How to run: save as remoc/tests/rch/handover_ports.rs, add `mod handover_ports;` to remoc/tests/rch/mod.rs,  cargo test --offline -p remoc --test tests handover_ports
// Fails on the current tree: endpoint b has max_ports 4; a first item takes its last two ports; a second item carries one lr::Sender: the
// local half is told Connect(Connect(Rejected)) ("rejected by the listener") instead of RemotePortsExhausted, and the request's wait flag
// (base::Sender::send asks with wait = true) is not honoured.

//! C10: a port-open request made by sending a channel half over an existing channel is refused
//! with the true reason.
//!
//! When the receiving endpoint has no free port for the channel half, the request is
//! answered with `Rejected` instead of `RemotePortsExhausted`.

use futures::StreamExt;
use std::time::Duration;
use tokio::time::timeout;

use remoc::{
    chmux, exec,
    rch::{self, base, lr},
};

use crate::loop_transport;

const T: Duration = Duration::from_secs(5);

type Item = Vec<lr::Sender<u32>>;

#[tokio::test]
async fn handover_without_free_remote_port() {
    crate::init();

    // Endpoint b has four ports, two of them are taken by the base channel.
    let a_cfg = chmux::Cfg::default();
    let b_cfg = chmux::Cfg { max_ports: 4, ..Default::default() };
    loop_transport!(0, transport_a_tx, transport_a_rx, transport_b_tx, transport_b_rx);
    let a = async move {
        let (conn, tx, rx): (_, base::Sender<Item>, base::Receiver<Item>) =
            remoc::Connect::framed(a_cfg, transport_a_tx, transport_a_rx).await.unwrap();
        exec::spawn(conn);
        (tx, rx)
    };
    let b = async move {
        let (conn, tx, rx): (_, base::Sender<Item>, base::Receiver<Item>) =
            remoc::Connect::framed(b_cfg, transport_b_tx, transport_b_rx).await.unwrap();
        exec::spawn(conn);
        (tx, rx)
    };
    let ((mut a_tx, _a_rx), (_b_tx, mut b_rx)) = tokio::join!(a, b);

    // The first item takes the remaining two ports of b.
    let (tx1, _rx1) = lr::channel::<u32, remoc::codec::Default>();
    let (tx2, _rx2) = lr::channel::<u32, remoc::codec::Default>();
    a_tx.send(vec![tx1, tx2]).await.unwrap();
    let held = timeout(T, b_rx.recv()).await.expect("recv hangs").unwrap().unwrap();
    assert_eq!(held.len(), 2);

    // The channel of the second item finds no free port at b.
    let (tx3, mut rx3) = lr::channel::<u32, remoc::codec::Default>();
    a_tx.send(vec![tx3]).await.unwrap();
    match timeout(T, b_rx.recv()).await.expect("recv hangs") {
        Err(err) => {
            println!("receiver: {err}");
            assert!(!err.is_final());
        }
        Ok(other) => panic!("item received without a free port: {other:?}"),
    }

    // The receiver keeps receiving.
    let receiver = exec::spawn(async move {
        let res = b_rx.recv().await;
        println!("receiver: {res:?}");
    });

    // The local half must be told why the channel could not be established.
    match timeout(T, rx3.recv()).await.expect("local half waits for ever") {
        Err(lr::RecvError::Connect(rch::ConnectError::Connect(chmux::ConnectError::RemotePortsExhausted))) => (),
        other => panic!("hand-over refused for lack of remote ports was reported as {other:?}"),
    }

    drop(held);
    drop(a_tx);
    let _ = timeout(T, receiver).await;
}
