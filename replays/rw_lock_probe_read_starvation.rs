// Replay for the repaired defect  property=C17  fix 6518ed6 "rw_lock owner serves read requests while write requests keep coming"
// obligation: U19_rwlock_owner.Owner::owner_task::select_policy/safety (neither_kind_of_request_is_starved_by_a_stream_of_the_other_kind)
// How to run: save as remoc/tests/robj/rw_lock_starvation.rs, add `mod rw_lock_starvation;` to remoc/tests/robj/mod.rs,
//     cargo test --offline -p remoc --test tests rw_lock_starvation
// Before the fix: two local writers loop write() -> modify -> commit() (every guard released at once); a third task calls
// ReadLock::read(): still pending after 5 s while more than 100000 write guards had been granted and released.

use std::{
    sync::{
        Arc,
        atomic::{AtomicBool, AtomicUsize, Ordering},
    },
    time::Duration,
};

use remoc::{exec, robj::rw_lock::Owner};

/// C17: as long as every guard is eventually released, every read request eventually completes.
///
/// Two writers that each release their guard immediately (commit) and then ask again
/// must not keep a reader out forever.
#[tokio::test]
async fn read_completes_while_writers_keep_writing() {
    crate::init();

    let owner: Owner<u64> = Owner::new(0u64);
    let stop = Arc::new(AtomicBool::new(false));
    let writes = Arc::new(AtomicUsize::new(0));

    let mut writers = Vec::new();
    for _ in 0..2 {
        let lock = owner.rw_lock();
        let stop = stop.clone();
        let writes = writes.clone();
        writers.push(exec::spawn(async move {
            while !stop.load(Ordering::SeqCst) {
                let mut guard = lock.write().await.unwrap();
                *guard += 1;
                // every write guard is released right away
                guard.commit().await.unwrap();
                writes.fetch_add(1, Ordering::SeqCst);
            }
        }));
    }

    // let the writers get going
    while writes.load(Ordering::SeqCst) < 10 {
        tokio::task::yield_now().await;
    }

    let reader = owner.read_lock();
    let writes_before = writes.load(Ordering::SeqCst);
    let res = tokio::time::timeout(Duration::from_secs(5), async {
        let guard = reader.read().await.unwrap();
        *guard
    })
    .await;
    let writes_after = writes.load(Ordering::SeqCst);

    stop.store(true, Ordering::SeqCst);
    for w in writers {
        let _ = w.await;
    }

    println!("writes while the read request was pending: {}", writes_after - writes_before);
    assert!(
        res.is_ok(),
        "read request did not complete within 5 s although {} write guards were granted and released meanwhile",
        writes_after - writes_before
    );
}
