// Replay for the OPEN known finding  property=C11  obligation U17_mpsc_loops.send_impl::backchannel_arm/a_close_notice_does_not_discard_values_already_acknowledged_upstream
// How to run: save as remoc/tests/rch/hunt_d5.rs, add `mod hunt_d5;` to remoc/tests/rch/mod.rs,  cargo test --offline -p remoc --test tests rch::hunt_d5
// Observed on the unchanged tree: mpsc::channel(1) on A, the sender sent A -> B and handed on B -> C.  C sends 200 kB values and awaits every
// Sending handle: 9 are accepted and all 9 resolve Ok(()).  Then A calls rx.close() and drains: it obtains values 0..=3 and end-of-stream;
// values 4..=8 -- acknowledged as transmitted -- vanish inside the forwarder B, no error anywhere.

//! Close of the receiver of a forwarded mpsc channel.

use std::time::Duration;

use crate::loop_channel;
use remoc::{exec::time::timeout, rch::mpsc};

const T: Duration = Duration::from_secs(10);

/// C11: values whose transmission was completed (and acknowledged through their Sending handle)
/// before the sender learned of the close are still delivered, also on a forwarded channel.
#[tokio::test]
async fn hunt_mpsc_forwarded_close_keeps_transmitted() {
    crate::init();
    let ((mut a_tx, _a_rx), (_b_tx, mut b_rx)) = loop_channel::<mpsc::Sender<Vec<u8>>>().await;
    let ((mut c_tx, _c_rx), (_d_tx, mut d_rx)) = loop_channel::<mpsc::Sender<Vec<u8>>>().await;

    let (tx, mut rx) = mpsc::channel::<Vec<u8>, remoc::codec::Default>(1);
    a_tx.send(tx).await.unwrap();
    let tx = b_rx.recv().await.unwrap().unwrap();
    c_tx.send(tx).await.unwrap();
    let tx = d_rx.recv().await.unwrap().unwrap();

    // The far sender sends until back-pressure stops it.
    let mut acked = 0usize;
    let mut refused = 0usize;
    for i in 0..40u8 {
        let sending = match timeout(Duration::from_millis(700), tx.send(vec![i; 200_000])).await {
            Ok(Ok(sending)) => sending,
            Ok(Err(err)) => panic!("send failed: {err}"),
            Err(_) => break,
        };
        match timeout(Duration::from_millis(700), sending).await {
            Ok(Ok(())) => acked += 1,
            Ok(Err(_)) => refused += 1,
            Err(_) => break,
        }
    }
    println!("acked {acked} refused {refused}");
    assert!(acked >= 3);

    // Now the receiver is closed and drained.
    rx.close();
    let mut got = Vec::new();
    loop {
        match timeout(T, rx.recv()).await.expect("recv hangs") {
            Ok(Some(v)) => {
                assert_eq!(v.len(), 200_000);
                got.push(v[0]);
            }
            Ok(None) => break,
            Err(err) => panic!("recv error: {err}"),
        }
    }
    println!("got {got:?}");
    let expect: Vec<u8> = (0..got.len() as u8).collect();
    assert_eq!(got, expect, "not a prefix");
    assert!(
        got.len() >= acked,
        "{acked} values were transmitted and acknowledged before the sender learned of the close, but only {} delivered",
        got.len()
    );
}
