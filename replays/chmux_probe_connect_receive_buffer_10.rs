// Replay for the repaired defect  property=C03  fix d863245 "chmux Sender::connect returns its remaining credits before it requests more"
// obligation: U2_sender.Sender::connect/connect_holds_no_credit_outside_the_pool_while_it_waits_for_more
// How to run: save as remoc/tests/chmux/tiny_d2.rs, add `mod tiny_d2;` to remoc/tests/chmux/mod.rs,  cargo test --offline -p remoc --test tests tiny_d2
// Before the fix: default Cfg except receive_buffer: 10.  A sends 3 bytes, B receives them, then A calls tx.connect(<3 ports>, true) while B
// sits in recv_any(): connect never returns.  Stuck state: pool 3 + in hand 3 + 4 unreturned at the receiver (threshold 5).

//! Port requests over a port with a receive buffer of 10 bytes.

use bytes::Bytes;
use futures::{StreamExt, future::try_join};
use std::time::Duration;
use tokio::time::timeout;

use crate::loop_transport;
use remoc::{chmux, exec};

/// A port-open request must not be left waiting when the receiver has consumed everything
/// it was sent.
#[tokio::test]
async fn connect_over_port_with_receive_buffer_10() {
    crate::init();

    let cfg = chmux::Cfg { receive_buffer: 10, connection_timeout: None, ..Default::default() };

    loop_transport!(0, a_tx, a_rx, b_tx, b_rx);
    let ((a_mux, a_client, _a_listener), (b_mux, _b_client, mut b_listener)) =
        try_join(chmux::ChMux::new(cfg.clone(), a_tx, a_rx), chmux::ChMux::new(cfg, b_tx, b_rx)).await.unwrap();
    exec::spawn(a_mux.run());
    exec::spawn(b_mux.run());

    let (conn, acc) = tokio::join!(a_client.connect(), b_listener.accept());
    let (mut tx, _a_rx) = conn.unwrap();
    let (_b_tx, mut rx) = acc.unwrap().unwrap();

    // One message of three bytes, consumed by the receiver.
    tx.send(Bytes::from_static(b"abc")).await.unwrap();
    let msg: Bytes = rx.recv().await.unwrap().unwrap().into();
    assert_eq!(&msg[..], b"abc");

    // The receiver consumes everything that arrives.
    let receiver = exec::spawn(async move {
        match rx.recv_any().await.unwrap() {
            Some(chmux::Received::Requests(reqs)) => reqs.len(),
            other => panic!("unexpected {other:?}"),
        }
    });

    // Three port requests in one message: 12 credits, they have to go in several frames.
    let mut ports = Vec::new();
    for _ in 0..3 {
        ports.push(chmux::PortReq::new(tx.port_allocator().allocate().await));
    }
    let connects = timeout(Duration::from_secs(5), tx.connect(ports, true))
        .await
        .expect("port requests stuck although the receiver consumed everything that was sent")
        .unwrap();
    assert_eq!(connects.len(), 3);
    assert_eq!(timeout(Duration::from_secs(5), receiver).await.unwrap().unwrap(), 3);
}
