use futures::stream::StreamExt;
use bytes::Bytes;
use futures::future::try_join;
use std::time::Duration;

use crate::loop_transport;
use remoc::{chmux, exec};

/// Receiver is closed gracefully and then dropped; a sender that overrides graceful close (as forward() does)
/// must see its sends fail instead of waiting for credits forever.
#[tokio::test]
async fn probe_close_then_drop_with_override() {
    let cfg = chmux::Cfg { connection_timeout: None, chunk_size: 8, receive_buffer: 16, ..Default::default() };
    loop_transport!(0, a_tx, a_rx, b_tx, b_rx);
    let ((a_mux, a_client, _a_server), (b_mux, _b_client, mut b_server)) =
        try_join(chmux::ChMux::new(cfg.clone(), a_tx, a_rx), chmux::ChMux::new(cfg.clone(), b_tx, b_rx)).await.unwrap();
    exec::spawn(async move { let _ = a_mux.run().await; });
    exec::spawn(async move { let _ = b_mux.run().await; });
    let (conn, acc) = tokio::join!(a_client.connect(), b_server.accept());
    let (mut a_sender, _a_receiver) = conn.unwrap();
    let (_b_sender, mut b_receiver) = acc.unwrap().unwrap();

    a_sender.set_override_graceful_close(true);
    b_receiver.close().await;
    tokio::time::sleep(Duration::from_millis(200)).await;
    drop(b_receiver);
    tokio::time::sleep(Duration::from_millis(200)).await;

    let res = tokio::time::timeout(Duration::from_secs(3), a_sender.send(Bytes::from_static(&[1u8; 64]))).await;
    match res {
        Ok(Err(_)) => (),
        Ok(Ok(())) => panic!("send to a dropped receiver succeeded"),
        Err(_) => panic!("send to a dropped receiver hangs (waiting for credits that can never come)"),
    }
}
