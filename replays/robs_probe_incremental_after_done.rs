use remoc::robs::vec::ObservableVec;
use std::time::Duration;
use tokio::time::sleep;

/// An incremental subscription taken after done() must still deliver the whole contents.
#[tokio::test]
async fn incremental_subscription_after_done() {
    let mut obs: ObservableVec<u32, remoc::codec::Default> = ObservableVec::new();
    for i in 0..5 {
        obs.push(i);
    }
    obs.done();
    let mirror = obs.subscribe_incremental(16).mirror(100);
    sleep(Duration::from_millis(500)).await;
    let m = mirror.borrow().await.unwrap();
    assert_eq!(*m, vec![0, 1, 2, 3, 4], "mirror of a finished vector taken incrementally is incomplete");
    assert!(m.is_done());
}

#[tokio::test]
async fn incremental_subscription_after_done_others() {
    use remoc::robs::{hash_map::ObservableHashMap, hash_set::ObservableHashSet, vec_deque::ObservableVecDeque};
    let mut d: ObservableVecDeque<u32, remoc::codec::Default> = ObservableVecDeque::new();
    let mut m: ObservableHashMap<u32, u32, remoc::codec::Default> = ObservableHashMap::new();
    let mut s: ObservableHashSet<u32, remoc::codec::Default> = ObservableHashSet::new();
    for i in 0..5 {
        d.push_back(i);
        m.insert(i, i);
        s.insert(i);
    }
    d.done();
    m.done();
    s.done();
    let dm = d.subscribe_incremental(16).mirror(100);
    let mm = m.subscribe_incremental(16).mirror(100);
    let sm = s.subscribe_incremental(16).mirror(100);
    sleep(Duration::from_millis(500)).await;
    assert_eq!(dm.borrow().await.unwrap().len(), 5, "deque");
    assert_eq!(mm.borrow().await.unwrap().len(), 5, "map");
    assert_eq!(sm.borrow().await.unwrap().len(), 5, "set");
    assert!(dm.borrow().await.unwrap().is_done() && mm.borrow().await.unwrap().is_done() && sm.borrow().await.unwrap().is_done());
}
