// Replay for the repaired defect  property=C04  fix 9bb244a "a received mpsc sender keeps the item size limit it was sent with"
// obligation: U17_mpsc_loops.Sender::deserialize::received_handle/received_sender_keeps_its_item_size_limit
// How to run: save as remoc/tests/rch/hunt_d2.rs, add `mod hunt_d2;` to remoc/tests/rch/mod.rs,
//     cargo test --offline -p remoc --test tests hunt_d2
// Before the fix: the received sender reports 16777216 instead of 1000; forwarded once more, a 5000-byte item is accepted (Sending resolves Ok) and never delivered.
//! C04: an item that fails individually because of a size limit is reported to its sender.
//!
//! A received `mpsc::Sender` forgets the item size limit it was transported with, so that after
//! forwarding it to a third endpoint the limit is neither enforced nor reported there.

use std::time::Duration;
use tokio::time::timeout;

use crate::loop_channel;
use remoc::rch::{SendingError, base::SendErrorKind, mpsc};

const T: Duration = Duration::from_secs(10);

#[tokio::test]
async fn received_sender_reports_its_item_size_limit() {
    crate::init();
    let ((mut a_tx, _), (_, mut b_rx)) = loop_channel::<mpsc::Sender<String>>().await;

    let (mut tx, _rx) = mpsc::channel(4);
    tx.set_max_item_size(1000);
    a_tx.send(tx).await.unwrap();
    let tx = timeout(T, b_rx.recv()).await.unwrap().unwrap().unwrap();

    assert_eq!(tx.max_item_size(), 1000, "received sender reports wrong maximum item size");
}

#[tokio::test]
async fn forwarded_sender_keeps_item_size_limit() {
    crate::init();
    let ((mut a_tx, _), (_, mut b_rx)) = loop_channel::<mpsc::Sender<String>>().await;
    let ((mut c_tx, _), (_, mut d_rx)) = loop_channel::<mpsc::Sender<String>>().await;

    // Channel with an item size limit of 1000 bytes, receiver stays here.
    let (mut tx, mut rx) = mpsc::channel(4);
    tx.set_max_item_size(1000);

    // Sender goes to B, B forwards it to D.
    a_tx.send(tx).await.unwrap();
    let tx = timeout(T, b_rx.recv()).await.unwrap().unwrap().unwrap();
    c_tx.send(tx).await.unwrap();
    let tx = timeout(T, d_rx.recv()).await.unwrap().unwrap().unwrap();

    let small = tx.send("small".to_string()).await.unwrap();
    let oversized = tx.send("x".repeat(5000)).await.unwrap();

    timeout(T, small).await.unwrap().unwrap();
    assert_eq!(timeout(T, rx.recv()).await.unwrap().unwrap(), Some("small".to_string()));

    // The oversized item must be reported to its sender, as it is when sending from B directly.
    let res = timeout(T, oversized).await.unwrap();
    println!("result of sending oversized item: {res:?}");
    assert!(
        matches!(&res, Err(SendingError::Send(err)) if matches!(err.kind, SendErrorKind::MaxItemSizeExceeded)),
        "oversized item was not reported to its sender: {:?}",
        res.map_err(|err| err.to_string())
    );
}

