// Replay for the repaired defect  property=C04  fix 6f44484 "mpsc distributor keeps a value whose chosen subscriber went away"
// obligation: U14_mpsc.Distributor::distribute::item_arm/a_value_whose_chosen_subscriber_went_away_is_kept_for_another_one
// How to run: save as remoc/tests/rch/mpsc_r8s_dist.rs, add `mod mpsc_r8s_dist;` to remoc/tests/rch/mod.rs,  cargo test --offline -p remoc --test tests r8s_distributor
// Before the fix: two subscribers; subscriber 0 is dropped while the distributor waits for the next value (it already holds a slot of
// subscriber 0); 1, 2, 3 are sent: the live, reading subscriber 1 gets [2, 3] -- value 1 is lost from the middle of the stream.

use std::time::Duration;

use remoc::rch::mpsc;

/// C04/C11: a value sent into a distributed channel reaches a subscriber that is alive.
/// A subscriber that was dropped BEFORE the value was even sent must not swallow it.
#[tokio::test]
async fn r8s_distributor_dropped_subscriber() {
    crate::init();
    let (tx, rx) = mpsc::channel::<u32, remoc::codec::Default>(4);
    let dist = rx.distribute(true);
    let (sub0, _h0) = dist.subscribe().await.unwrap();
    let (mut sub1, _h1) = dist.subscribe().await.unwrap();

    // Let the distributor run: it reserves a slot of one subscriber and waits for a value.
    tokio::time::sleep(Duration::from_millis(100)).await;
    drop(sub0);
    tokio::time::sleep(Duration::from_millis(100)).await;

    // All three values are sent after subscriber 0 is gone; subscriber 1 lives and reads.
    tx.send(1).await.unwrap();
    tx.send(2).await.unwrap();
    tx.send(3).await.unwrap();

    let mut got = Vec::new();
    while let Ok(Ok(Some(v))) = tokio::time::timeout(Duration::from_millis(500), sub1.recv()).await {
        got.push(v);
    }
    assert_eq!(got, vec![1, 2, 3], "a value was handed to a subscriber that was gone before it was sent");
}
