// Replay for the OPEN known finding  property=C20  obligation U16_handle.Provider::drop/dropping_the_provider_releases_the_value
// How to run: the file below goes to the path named in the marker (plus its `mod` line);  cargo test --offline -p remoc --test tests handle_provider_drop
// Observed on the unchanged tree: (handle, provider) = Handle::provided(value); drop(provider): a handle that was never sent, a local
// clone, and a handle received back all still return Ok from as_ref(), and the value is not dropped.  Provider owns only keep_tx and has
// an empty Drop; the per-serialization task merely removes the storage id (remote handles become invalid).

// ===== file: remoc/tests/robj/handle_provider_drop.rs =====
//! Dropping the provider of a handle must release the value and invalidate all handles,
//! also the ones held on the creating endpoint.

use std::{
    sync::{
        Arc,
        atomic::{AtomicBool, Ordering},
    },
    time::Duration,
};

use crate::loop_channel;
use remoc::robj::handle::Handle;

#[derive(Clone)]
struct DropFlag(Arc<AtomicBool>, String);

impl Drop for DropFlag {
    fn drop(&mut self) {
        self.0.store(true, Ordering::SeqCst);
    }
}

#[tokio::test]
async fn provider_drop_releases_value_held_by_local_handles() {
    crate::init();
    let ((mut a_tx, mut a_rx), (mut b_tx, mut b_rx)) = loop_channel::<Handle<DropFlag>>().await;

    let flag = Arc::new(AtomicBool::new(false));
    let (h, provider) = Handle::provided(DropFlag(flag.clone(), "x".into()));
    let local = h.clone();

    // There and back again.
    a_tx.send(h).await.unwrap();
    let hb = b_rx.recv().await.unwrap().unwrap();
    b_tx.send(hb.clone()).await.unwrap();
    let received_back = a_rx.recv().await.unwrap().unwrap();
    assert_eq!(received_back.as_ref().await.unwrap().1, "x");
    assert_eq!(local.as_ref().await.unwrap().1, "x");

    drop(provider);
    for _ in 0..30 {
        if flag.load(Ordering::SeqCst) {
            break;
        }
        tokio::time::sleep(Duration::from_millis(100)).await;
    }

    // A handle that comes back after the provider was dropped is invalid (this works).
    b_tx.send(hb).await.unwrap();
    let late = a_rx.recv().await.unwrap().unwrap();
    assert!(late.as_ref().await.is_err());

    let received_back_res = received_back.as_ref().await.map(|v| v.1.clone());
    let local_res = local.as_ref().await.map(|v| v.1.clone());
    println!("received-back handle after provider drop: {received_back_res:?}");
    println!("local handle after provider drop: {local_res:?}");
    assert!(flag.load(Ordering::SeqCst), "value not released after provider was dropped");
    assert!(received_back_res.is_err(), "received-back handle still valid after provider was dropped");
    assert!(local_res.is_err(), "local handle still valid after provider was dropped");
}

#[tokio::test]
async fn provider_drop_releases_value_of_unsent_handle() {
    crate::init();
    let flag = Arc::new(AtomicBool::new(false));
    let (h, provider): (Handle<DropFlag>, _) = Handle::provided(DropFlag(flag.clone(), "x".into()));

    drop(provider);
    tokio::time::sleep(Duration::from_millis(300)).await;

    let res = h.as_ref().await.map(|v| v.1.clone());
    println!("handle after provider drop: {res:?}");
    assert!(flag.load(Ordering::SeqCst), "value not released after provider was dropped");
    assert!(res.is_err(), "handle still valid after provider was dropped");
}
