// Replay for the repaired defect  property=C09  fix c04fc5d "the maximum frame length admits the hello message for every valid chunk size"
// obligations: U5_msg.lemma_hello_fits_the_frame_cap/frame_cap_admits_every_message_of_a_conforming_peer, U5_msg.Cfg::max_frame_length/frame_cap_is_header_plus_chunk
// How to run: save as remoc/tests/chmux/io_min_chunk_size.rs, add `mod io_min_chunk_size;` to remoc/tests/chmux/mod.rs,
//     cargo test --offline -p remoc --test tests io_min_chunk_size
// Before the fix: for chunk_size 4..=9 (valid: "must be at least 4") both endpoints of Connect::io fail with
// StreamError(InvalidData: frame size too big): the receive cap 16 + chunk_size is below the 26-byte hello message.

//! Connect::io must work for every configuration that `Cfg` documents as valid.

use std::time::Duration;
use tokio::time::timeout;

use remoc::{chmux::Cfg, exec};

/// `Cfg::chunk_size` is documented as "must be at least 4 bytes".
/// Two endpoints of the same build, connected over a byte stream using such a
/// configuration, must be able to complete the handshake and exchange a value.
#[tokio::test]
async fn io_min_chunk_size() {
    crate::init();

    for chunk_size in [4, 9, 10] {
        let cfg = Cfg { chunk_size, ..Default::default() };

        // Note: the Hello message of protocol version 3 takes 26 bytes (code, 6 bytes magic, version,
        // u64 timeout, u32 chunk size, u32 receive buffer, u16 connect queue), while
        // cfg.max_frame_length() is 16 + chunk_size.
        let (a, b) = tokio::io::duplex(65536);
        let (a_rx, a_tx) = tokio::io::split(a);
        let (b_rx, b_tx) = tokio::io::split(b);

        let a_cfg = cfg.clone();
        let a_task = async move {
            remoc::Connect::io::<_, _, u32, u32, remoc::codec::Default>(a_cfg, a_rx, a_tx).await.map(
                |(conn, tx, rx)| {
                    exec::spawn(conn);
                    (tx, rx)
                },
            )
        };
        let b_task = async move {
            remoc::Connect::io::<_, _, u32, u32, remoc::codec::Default>(cfg, b_rx, b_tx).await.map(
                |(conn, tx, rx)| {
                    exec::spawn(conn);
                    (tx, rx)
                },
            )
        };

        let (a_res, b_res) =
            timeout(Duration::from_secs(10), async { tokio::join!(a_task, b_task) }).await.expect("connect hangs");
        let (mut a_tx, _a_rx) = a_res.unwrap_or_else(|err| panic!("chunk_size {chunk_size}: connect failed: {err}"));
        let (_b_tx, mut b_rx) = b_res.unwrap_or_else(|err| panic!("chunk_size {chunk_size}: connect failed: {err}"));

        a_tx.send(1234).await.unwrap();
        assert_eq!(timeout(Duration::from_secs(10), b_rx.recv()).await.expect("recv hangs").unwrap(), Some(1234));
    }
}
