// Replay for the KNOWN FINDING  property=C11
// obligation: U17_mpsc_loops.send_impl::data_arm/a_close_notice_is_read_while_a_value_waits_for_flow_control_credits
// How to run: save as remoc/tests/rch/r5_close_blocked.rs, add `mod r5_close_blocked;` to remoc/tests/rch/mod.rs,  cargo test --offline -p remoc --test tests r5_close
// Fails on the current tree: the mpsc receiver is on the remote endpoint and is not read; the local sender sends 100 kB values until the
// forwarding task waits for flow-control credits inside remote_tx.send(value).await; the receiver calls close(): tx.closed() never
// completes and closed_reason() stays None until the receiving application reads (and so returns credits).

//! Review of 7278de1: the close notice and a sender that waits for flow control credits.

use std::time::Duration;

use crate::loop_channel;
use remoc::{
    exec::time::{sleep, timeout},
    rch::{ClosedReason, mpsc},
};

/// Property C11: closing a receiver eventually becomes observable at the remote sender
/// ("closed gracefully"), also when the application on the receiving side does not read.
///
/// 7278de1 made the receiving side send the close notice while its local queue is full.
/// The sending side, however, only looks at the back channel between two values: when it
/// waits for flow control credits inside `remote_tx.send(value).await` the notice is
/// never read and the sender never learns that the channel has been closed.
#[tokio::test]
async fn close_reaches_sender_waiting_for_credits() {
    crate::init();
    let ((mut a_tx, _), (_, mut b_rx)) = loop_channel::<mpsc::Receiver<Vec<u8>>>().await;

    let (tx, rx) = mpsc::channel(1);
    a_tx.send(rx).await.unwrap();
    let mut rx = b_rx.recv().await.unwrap().unwrap();

    // The sender sends until everything is full: receive buffer of the port (512 kB),
    // queue of the remote receiver, pending slot, local queue.
    let fill_tx = tx.clone();
    let filler = tokio::spawn(async move {
        let mut n = 0usize;
        while fill_tx.send(vec![0u8; 100_000]).await.is_ok() {
            n += 1;
        }
        n
    });
    sleep(Duration::from_millis(500)).await;
    assert!(!filler.is_finished());
    assert_eq!(tx.closed_reason(), None);

    // The receiver is closed without reading anything.
    rx.close();

    // The sender must learn of it.
    if timeout(Duration::from_secs(5), tx.closed()).await.is_err() {
        panic!("the sender was not told that the receiver has been closed; closed_reason = {:?}", tx.closed_reason());
    }
    assert_eq!(tx.closed_reason(), Some(ClosedReason::Closed));

    // And the blocked send must end.
    let n = timeout(Duration::from_secs(5), filler).await.expect("send still blocked after close").unwrap();
    println!("{n} values accepted");

    // What had been transmitted is still delivered.
    let mut got = 0;
    while let Some(v) = rx.recv().await.unwrap() {
        assert_eq!(v.len(), 100_000);
        got += 1;
    }
    assert!(got <= n);
}
