// Replay for the repaired defect  property=C18  fix 401a568 "keep reporting a failed operation of an io channel instead of panicking"
// obligations: U8_io.Sender::poll_complete/no_finished_future_stays_installed, U8_io.Receiver::poll_complete/no_finished_future_stays_installed_in_the_receiver
// How to run: save as remoc/tests/rch/io_after_error.rs, add `mod io_after_error;` to remoc/tests/rch/mod.rs,
//     cargo test --offline -p remoc --test tests io_after_error
// Before the fix all 3 tests panic with "`async fn` resumed after completion" on the operation after a failed one.
//! C18: an interrupted / unfinished stream yields an *error* on the affected side.
//! Once an operation has failed, the following operations must keep returning an
//! error; they must not panic.

use std::time::Duration;
use tokio::io::{AsyncReadExt, AsyncWriteExt};

use crate::{droppable_loop_channel, loop_channel};
use remoc::rch::io;

/// Receiver is dropped; the sender notices through a failed write/flush.
/// The customary clean-up call `shutdown()` afterwards must return an error.
#[tokio::test]
async fn io_sender_shutdown_after_failed_write() {
    crate::init();
    let ((mut a_tx, _a_rx), (_b_tx, mut b_rx)) = loop_channel::<io::Receiver>().await;
    let (mut tx, rx) = io::channel();
    a_tx.send(rx).await.unwrap();
    let rx = b_rx.recv().await.unwrap().unwrap();
    tx.write_all(b"hello").await.unwrap();
    tx.flush().await.unwrap();
    drop(rx);
    tokio::time::sleep(Duration::from_millis(100)).await;

    let data = vec![1u8; 1000];
    let mut failed = false;
    for _ in 0..1000 {
        if tx.write_all(&data).await.is_err() || tx.flush().await.is_err() {
            failed = true;
            break;
        }
    }
    assert!(failed, "writes to a dropped receiver never fail");

    // Must yield errors, not panic.
    let r = tx.shutdown().await;
    assert!(r.is_err(), "shutdown succeeded on a broken stream");
}

/// Unsized channel, sender dropped without shutdown: read fails with UnexpectedEof.
/// Reading again must fail again.
#[tokio::test]
async fn io_receiver_read_after_unfinished_stream_error() {
    crate::init();
    let ((mut a_tx, _a_rx), (_b_tx, mut b_rx)) = loop_channel::<io::Receiver>().await;
    let (mut tx, rx) = io::channel();
    a_tx.send(rx).await.unwrap();
    let mut rx = b_rx.recv().await.unwrap().unwrap();
    tx.write_all(b"hello").await.unwrap();
    tx.flush().await.unwrap();
    drop(tx);

    let mut buf = Vec::new();
    let r1 = rx.read_to_end(&mut buf).await;
    assert_eq!(r1.unwrap_err().kind(), std::io::ErrorKind::UnexpectedEof);

    let mut b = [0u8; 16];
    let r2 = rx.read(&mut b).await;
    assert!(r2.is_err(), "read after unfinished-stream error reported {r2:?}");
}

/// Connection lost mid-stream: read fails; reading again must fail again.
#[tokio::test]
async fn io_receiver_read_after_connection_lost() {
    crate::init();
    let ((mut a_tx, a_rx), (b_tx, mut b_rx), drop_rx) = droppable_loop_channel::<io::Receiver>().await;
    let (mut tx, rx) = io::sized(100_000);
    a_tx.send(rx).await.unwrap();
    let mut rx = b_rx.recv().await.unwrap().unwrap();

    tx.write_all(&[7u8; 10_000]).await.unwrap();
    tx.flush().await.unwrap();
    let mut buf = vec![0u8; 10_000];
    rx.read_exact(&mut buf).await.unwrap();

    drop(drop_rx);
    drop(a_rx);
    drop(b_tx);
    drop(a_tx);
    drop(b_rx);
    tokio::time::sleep(Duration::from_millis(100)).await;

    let mut b = [0u8; 16];
    assert!(rx.read(&mut b).await.is_err());
    let r2 = rx.read(&mut b).await;
    assert!(r2.is_err(), "read after interrupted-stream error reported {r2:?}");
}

