// Replay for the repaired defect  property=C05 (also C18, C04)  fix c37fcee "io::Sender and io::Receiver survive their own serialization"
// obligations: U8_io.Sender::serialize/sender_survives_its_own_serialization, U8_io.Receiver::serialize/receiver_survives_its_own_serialization
// How to run: save as remoc/tests/rch/hunt_d1.rs, add `mod hunt_d1;` to remoc/tests/rch/mod.rs,  cargo test --offline -p remoc --test tests rch::hunt_d1
// Before the fix: a value holding an io::Receiver (or io::Sender) next to a 600 kB field does not fit into one buffer; base::Sender::send
// serializes it a second time for streaming.  The first pass had moved the halves out: with an io::Receiver the send failed ("cannot
// serialize: channel already connected or closed"), with an io::Sender it succeeded but a dead sender arrived (expected_size() == Some(0),
// writes fail with BrokenPipe) and the local receiver read "other part was dropped".

//! io halves inside a value that is serialized twice (buffered attempt, then streaming).

use serde::{Deserialize, Serialize};
use std::time::Duration;
use tokio::io::{AsyncReadExt, AsyncWriteExt};

use crate::loop_channel;
use remoc::{exec, exec::time::timeout, rch::io};

const T: Duration = Duration::from_secs(10);

#[derive(Serialize, Deserialize)]
struct WithIoRx {
    rx: io::Receiver,
    payload: Vec<u8>,
}

#[derive(Serialize, Deserialize)]
struct WithIoTx {
    tx: io::Sender,
    payload: Vec<u8>,
}

/// C05/C18: an io receiver that travels inside a value too big for one buffer
/// (so that the value is serialized by the streaming path) must still arrive connected.
#[tokio::test]
async fn hunt_io_receiver_in_streamed_value() {
    crate::init();
    let ((mut a_tx, _a_rx), (_b_tx, mut b_rx)) = loop_channel::<WithIoRx>().await;

    let (mut tx, rx) = io::sized(11);

    let recv_task = exec::spawn(async move { b_rx.recv().await });

    // Larger than the default max_data_size of 512 KiB, but far below max_item_size.
    let payload = vec![7u8; 600_000];
    let res = timeout(T, a_tx.send(WithIoRx { payload: payload.clone(), rx })).await.expect("send hangs");
    if let Err(err) = &res {
        panic!("sending a value with an io receiver failed: {err}");
    }

    let msg = timeout(T, recv_task).await.expect("recv hangs").unwrap().unwrap().unwrap();
    assert_eq!(msg.payload, payload);
    let mut rx = msg.rx;

    let write_task = exec::spawn(async move {
        tx.write_all(b"hello world").await.unwrap();
        tx.shutdown().await.unwrap();
    });

    let mut buf = Vec::new();
    timeout(T, rx.read_to_end(&mut buf)).await.expect("read hangs").unwrap();
    write_task.await.unwrap();
    assert_eq!(buf, b"hello world");
}

/// C05/C18: the same for an io sender.
#[tokio::test]
async fn hunt_io_sender_in_streamed_value() {
    crate::init();
    let ((mut a_tx, _a_rx), (_b_tx, mut b_rx)) = loop_channel::<WithIoTx>().await;

    let (tx, mut rx) = io::sized(11);

    let recv_task = exec::spawn(async move { b_rx.recv().await });

    let payload = vec![7u8; 600_000];
    let res = timeout(T, a_tx.send(WithIoTx { payload: payload.clone(), tx })).await.expect("send hangs");
    if let Err(err) = &res {
        panic!("sending a value with an io sender failed: {err}");
    }

    let msg = timeout(T, recv_task).await.expect("recv hangs").unwrap().unwrap().unwrap();
    assert_eq!(msg.payload, payload);
    let mut tx = msg.tx;

    let write_task = exec::spawn(async move {
        tx.write_all(b"hello world").await.expect("write on received io sender failed");
        tx.shutdown().await.expect("shutdown on received io sender failed");
    });

    let mut buf = Vec::new();
    timeout(T, rx.read_to_end(&mut buf)).await.expect("read hangs").expect("read failed");
    write_task.await.unwrap();
    assert_eq!(buf, b"hello world");
}
