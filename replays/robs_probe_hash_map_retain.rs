use remoc::robs::hash_map::ObservableHashMap;
use std::time::Duration;
use tokio::time::sleep;

/// retain() hands out `&mut V`: a kept entry that the predicate modifies must reach the mirror.
#[tokio::test]
async fn hash_map_retain_modifies_kept_values() {
    let mut obs: ObservableHashMap<u32, u32, remoc::codec::Default> = ObservableHashMap::new();
    for i in 0..4 {
        obs.insert(i, i);
    }
    let mirror = obs.subscribe(1024).mirror(100);
    obs.retain(|_, v| {
        *v += 100;
        true
    });
    sleep(Duration::from_millis(300)).await;
    let m = mirror.borrow().await.unwrap();
    assert_eq!(*m, *obs, "mirror differs from the observed map after retain()");
}
