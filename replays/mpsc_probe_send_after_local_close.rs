// Replay for the repaired defect  property=C11  fix 5453417 "mpsc sender that reports the channel closed accepts no new values"
// obligation: U17_mpsc_loops.Sender::send/a_handle_that_reports_the_channel_closed_accepts_no_new_value
// How to run: save as remoc/tests/rch/close_local.rs, add `mod close_local;` to remoc/tests/rch/mod.rs,  cargo test --offline -p remoc --test tests close_local
// Before the fix (current-thread runtime, both halves local): after rx.close() the sender says is_closed() == true and
// closed_reason() == Some(Closed), yet oneshot send and mpsc send / try_send still succeed until the watcher task has run.

//! C11: closing a receiver stops its sender from starting new messages.
//!
//! For a channel whose halves are both local, the sender already reports `is_closed()`
//! but still accepts a new value.

use remoc::rch::{ClosedReason, mpsc, oneshot};

#[tokio::test]
async fn oneshot_send_after_local_close() {
    crate::init();
    let (tx, mut rx) = oneshot::channel::<u32, remoc::codec::Default>();

    rx.close();

    // The sender has learned of the close.
    assert!(tx.is_closed(), "sender does not see the close");
    assert_eq!(tx.closed_reason(), Some(ClosedReason::Closed));

    // Thus it must not be able to start a new message.
    match tx.send(1) {
        Ok(_) => panic!("send after close succeeded"),
        Err(err) => assert!(matches!(err, oneshot::SendError::Closed(1)), "wrong error: {err:?}"),
    }
}

#[tokio::test]
async fn mpsc_send_after_local_close() {
    crate::init();
    let (tx, mut rx) = mpsc::channel::<u32, remoc::codec::Default>(4);
    tx.send(0).await.unwrap();

    rx.close();

    assert!(tx.is_closed(), "sender does not see the close");
    assert_eq!(tx.closed_reason(), Some(ClosedReason::Closed));

    match tx.send(1).await {
        Ok(_) => panic!("send after close succeeded"),
        Err(err) => assert!(err.is_closed(), "wrong error: {err:?}"),
    }
    assert!(tx.try_send(2).is_err(), "try_send after close succeeded");
    assert!(tx.try_reserve().is_err(), "try_reserve after close succeeded");

    // What was sent before the close is still delivered, followed by the end of the stream.
    assert_eq!(rx.recv().await.unwrap(), Some(0));
    drop(tx);
    assert_eq!(rx.recv().await.unwrap(), None);
}
