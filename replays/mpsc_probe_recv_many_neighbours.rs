// Replay for the repaired defect  property=C04  fix 090ea09 "recv_many delivers the rest of a batch when one item failed"
// obligation: U14_mpsc.Receiver::recv_many/recv_many_delivers_every_value_of_the_batch
// How to run: save as remoc/tests/rch/hunt_d1.rs, add `mod hunt_d1;` to remoc/tests/rch/mod.rs,
//     cargo test --offline -p remoc --test tests hunt_d1
// Before the fix: items 0..8 sent, item 3 undecodable: recv_many returns the error with [0,1,2] in the buffer and items 4..7 are lost although every sender was told Ok.
//! C04: an item that fails individually must not cause its neighbours to be lost.
//!
//! `mpsc::Receiver::recv_many` drops all values of a batch that follow an item that failed
//! deserialization, although their senders were told that they were sent successfully and
//! although the channel stays usable afterwards (a gap, not a suffix).

use serde::{Deserialize, Serialize};
use std::time::Duration;
use tokio::time::timeout;

use crate::loop_channel;
use remoc::{codec, rch::mpsc};

/// Serializes fine, fails deserialization when set.
#[derive(Debug, Clone, PartialEq)]
struct Bomb(bool);

impl Serialize for Bomb {
    fn serialize<S: serde::Serializer>(&self, s: S) -> Result<S::Ok, S::Error> {
        s.serialize_bool(self.0)
    }
}

impl<'de> Deserialize<'de> for Bomb {
    fn deserialize<D: serde::Deserializer<'de>>(d: D) -> Result<Self, D::Error> {
        if bool::deserialize(d)? { Err(serde::de::Error::custom("bomb")) } else { Ok(Bomb(false)) }
    }
}

#[derive(Serialize, Deserialize, Debug)]
struct Item {
    id: u32,
    bomb: Bomb,
}

#[tokio::test]
async fn recv_many_item_failure_must_not_lose_neighbours() {
    crate::init();
    const T: Duration = Duration::from_secs(10);

    let ((mut a_tx, _), (_, mut b_rx)) = loop_channel::<mpsc::Sender<Item, codec::Default, 16>>().await;
    let (tx, mut rx) = mpsc::channel(16);
    a_tx.send(tx.set_buffer::<16>()).await.unwrap();
    let tx = timeout(T, b_rx.recv()).await.unwrap().unwrap().unwrap();

    // The remote sender sends items 0..8; item 3 cannot be deserialized by the receiver.
    let mut sendings = Vec::new();
    for id in 0..8 {
        sendings.push(tx.send(Item { id, bomb: Bomb(id == 3) }).await.unwrap());
    }
    // Every item is reported to its sender as sent successfully.
    for sending in sendings {
        timeout(T, sending).await.unwrap().unwrap();
    }
    // Let all of them arrive in the receive queue, so that they form one batch.
    tokio::time::sleep(Duration::from_millis(300)).await;

    let mut got = Vec::new();
    let mut errs = 0;
    let mut buf = Vec::new();
    match timeout(T, rx.recv_many(&mut buf, 16)).await.unwrap() {
        Ok(n) => println!("recv_many returned {n}"),
        Err(err) => {
            println!("recv_many error: {err}");
            assert!(!err.is_final());
            errs += 1;
        }
    }
    got.extend(buf.drain(..).map(|item| item.id));

    // The channel is still alive: later items arrive.
    tx.send(Item { id: 8, bomb: Bomb(false) }).await.unwrap();
    tx.send(Item { id: 9, bomb: Bomb(false) }).await.unwrap();
    drop(tx);
    loop {
        match timeout(T, rx.recv_many(&mut buf, 16)).await.unwrap() {
            Ok(0) => break,
            Ok(_) => (),
            Err(err) => {
                println!("recv_many error: {err}");
                assert!(!err.is_final());
                errs += 1;
            }
        }
        got.extend(buf.drain(..).map(|item| item.id));
    }

    println!("received {got:?}, {errs} errors");
    assert_eq!(errs, 1, "the failed item is reported once");
    assert_eq!(got, vec![0, 1, 2, 4, 5, 6, 7, 8, 9], "neighbours of the failed item were lost");
}

