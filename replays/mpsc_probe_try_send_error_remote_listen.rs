// Replay for the repaired defect  property=C11  fix "mpsc TrySendError::RemoteListen converts to SendError::RemoteListen"
// obligation: U22_errclass.mpsc::SendError::try_from<TrySendError>/try_send_error_converts_to_the_send_error_of_the_same_class
// How to run: append to remoc/tests/rch/mpsc.rs,  cargo test --offline -p remoc --test tests try_send_error_remote_listen
// Before the fix: SendError::try_from(TrySendError::RemoteListen(e)) returned Err(TrySendError::RemoteListen(e)) -- the final listen
// failure of a received sender was treated like the retryable Full (only Full has no SendError counterpart).

/// A listen error reported by `try_send` must be convertible into the `SendError` that `send`
/// reports for the same condition, i.e. `SendError::RemoteListen`.
#[cfg_attr(not(feature = "js"), tokio::test)]
#[cfg_attr(feature = "js", wasm_bindgen_test)]
async fn try_send_error_remote_listen_converts_to_send_error() {
    use std::convert::TryFrom;

    let err: TrySendError<i32> = TrySendError::RemoteListen(remoc::chmux::ListenerError::MultiplexerError);
    assert!(err.is_final() && err.is_disconnected());

    // From<SendError> for TrySendError maps RemoteListen to RemoteListen, the inverse must do so as well.
    match SendError::<i32>::try_from(err) {
        Ok(SendError::RemoteListen(_)) => (),
        Ok(other) => panic!("listen error was classified as {other:?}"),
        Err(other) => panic!("listen error was not converted, only Full has no SendError counterpart: {other:?}"),
    }
}
