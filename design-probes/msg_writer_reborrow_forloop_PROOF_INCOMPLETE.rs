use vstd::prelude::*;
verus! {
struct IoError { }
struct LE { }
struct VWriter { out: Ghost<Seq<u8>> }
impl VWriter {
    #[verifier::external_body]
    fn write_u8(&mut self, b: u8) -> (r: Result<(), IoError>)
        ensures r.is_ok() ==> final(self).out@ == old(self).out@.push(b)
    { Ok(()) }
    #[verifier::external_body]
    fn write_u32<E>(&mut self, v: u32) -> (r: Result<(), IoError>)
        ensures r.is_ok() ==> final(self).out@ == old(self).out@ + vstd::bytes::spec_u32_to_le_bytes(v)
    { Ok(()) }
}
struct Cfg { chunk: u32 }
impl Cfg {
    fn write(&self, writer: &mut VWriter) -> (r: Result<(), IoError>)
        ensures r.is_ok() ==> final(writer).out@ == old(writer).out@ + vstd::bytes::spec_u32_to_le_bytes(self.chunk)
    {
        writer.write_u32::<LE>(self.chunk)?;
        Ok(())
    }
}
spec fn ports_bytes(ps: Seq<u32>) -> Seq<u8> decreases ps.len() {
    if ps.len() == 0 { Seq::empty() } else { ports_bytes(ps.drop_last()) + vstd::bytes::spec_u32_to_le_bytes(ps.last()) }
}
fn write(cfg: &Cfg, ports: &Vec<u32>, writer: &mut VWriter) -> (r: Result<(), IoError>)
    ensures r.is_ok() ==> final(writer).out@ == old(writer).out@.push(2u8) + vstd::bytes::spec_u32_to_le_bytes(cfg.chunk) + ports_bytes(ports@)
{
    writer.write_u8(2)?;
    cfg.write(&mut *writer)?;
    let ghost o1 = writer.out@;
    for p in it: ports
        invariant writer.out@ == o1 + ports_bytes(ports@.take(it.index@ as int)), o1 == old(writer).out@.push(2u8) + vstd::bytes::spec_u32_to_le_bytes(cfg.chunk)
    {
        writer.write_u32::<LE>(*p)?;
        proof { assert(ports@.take(it.index@ + 1).drop_last() =~= ports@.take(it.index@ as int)); }
    }
    proof { assert(ports@.take(ports@.len() as int) =~= ports@); assert(ports_bytes(Seq::<u32>::empty()) =~= Seq::empty()); }
    Ok(())
}
}
fn main() {}
