use vstd::prelude::*;
use std::collections::HashMap;
verus! {
use std::hash::Hash;
use vstd::std_specs::hash::*;

#[verifier::external_body]
#[verifier::reject_recursive_types(V)]
struct Table<V> { m: HashMap<u32, V> }
impl<V> View for Table<V> { type V = Map<u32, V>; uninterp spec fn view(&self) -> Map<u32, V>; }
impl<V> Table<V> {
    #[verifier::external_body]
    fn get(&self, k: &u32) -> (r: Option<&V>)
        ensures match r { Some(v) => self@.contains_key(*k) && *v == self@[*k], None => !self@.contains_key(*k) }
    { self.m.get(k) }
    #[verifier::external_body]
    fn get_mut(&mut self, k: &u32) -> (r: Option<&mut V>)
        ensures match r {
            Some(v) => old(self)@.contains_key(*k) && *v == old(self)@[*k] && final(self)@ == old(self)@.insert(*k, *final(v)),
            None => !old(self)@.contains_key(*k) && final(self)@ == old(self)@,
        }
    { self.m.get_mut(k) }
    #[verifier::external_body]
    fn remove(&mut self, k: &u32) -> (r: Option<V>)
        ensures final(self)@ == old(self)@.remove(*k),
          match r { Some(v) => old(self)@.contains_key(*k) && v == old(self)@[*k], None => !old(self)@.contains_key(*k) }
    { self.m.remove(k) }
}

struct RxTx { log: Ghost<Seq<int>> }

enum PortState {
    Connecting { response_tx: u32 },
    Connected {
        remote_port: u32,
        receiver_tx_data: Option<RxTx>,
        receiver_dropped: bool,
        sender_dropped: bool,
        remote_receiver_dropped: bool,
    },
}

spec fn all_done(p: PortState) -> bool {
    p matches PortState::Connected { receiver_tx_data, receiver_dropped, sender_dropped, remote_receiver_dropped, .. } &&
       sender_dropped && receiver_dropped && receiver_tx_data is None && remote_receiver_dropped
}
struct Mux { ports: Table<PortState> }

#[verifier::external_body]
fn vpanic() -> ! requires false { panic!() }

impl Mux {
    fn maybe_free_port(&mut self, local_port: u32)
        requires old(self).ports@.contains_key(local_port), old(self).ports@[local_port] is Connected
        ensures
            final(self).ports@ == if all_done(old(self).ports@[local_port]) { old(self).ports@.remove(local_port) } else { old(self).ports@ },
    {
        let mut free = true;

        if let Some(PortState::Connected {
            receiver_tx_data,
            receiver_dropped,
            sender_dropped,
            remote_receiver_dropped,
            ..
        }) = self.ports.get(&local_port)
        {
            free = free && (*sender_dropped);
            free = free && (*receiver_dropped);
            free = free && (receiver_tx_data.is_none());
            free = free && (*remote_receiver_dropped);
        } else {
            vpanic();
        }

        if free {
            self.ports.remove(&local_port);
        }
    }

    fn send_finish(&mut self, port: u32) -> (r: Result<(), ()>)
        ensures r.is_ok() ==> old(self).ports@.contains_key(port) && old(self).ports@[port] is Connected,
           r.is_ok() && final(self).ports@.contains_key(port) ==> final(self).ports@[port]->receiver_tx_data is None,
           forall|p: u32| p != port ==> (final(self).ports@.contains_key(p) <==> old(self).ports@.contains_key(p)),
    {
        if let Some(PortState::Connected { receiver_tx_data, .. }) = self.ports.get_mut(&port) {
            match receiver_tx_data.take() {
                Some(receiver_tx_data) => {
                    self.maybe_free_port(port);
                }
                _ => {
                    return Err(());
                }
            }
        } else {
            return Err(());
        }
        Ok(())
    }
}
}
fn main() {}
