use vstd::prelude::*;
use std::collections::HashSet;
verus! {
enum RecvError { MaxSizeExceeded(usize), InvalidIndex(usize) }
enum VecEvent<T> {
    Push(T), Pop, Insert(usize, T), Set(usize, T), Remove(usize), SwapRemove(usize),
    Truncate(usize), Clear, Done, InitialComplete,
}
struct MirroredVecInner<T> {
    v: Vec<T>,
    complete: bool,
    done: bool,
    max_size: usize,
}

spec fn apply<T>(s: Seq<T>, e: VecEvent<T>) -> Seq<T> {
    match e {
        VecEvent::Push(v) => s.push(v),
        VecEvent::Pop => if s.len() > 0 { s.drop_last() } else { s },
        VecEvent::Insert(i, v) => s.insert(i as int, v),
        VecEvent::Set(i, v) => s.update(i as int, v),
        VecEvent::Remove(i) => s.remove(i as int),
        VecEvent::SwapRemove(i) => s.update(i as int, s.last()).drop_last(),
        VecEvent::Truncate(l) => if l <= s.len() { s.take(l as int) } else { s },
        VecEvent::Clear => Seq::empty(),
        _ => s,
    }
}

impl<T> MirroredVecInner<T>
{
    fn handle_event(&mut self, event: VecEvent<T>) -> (r: Result<(), RecvError>)
        ensures r.is_ok() ==> final(self).v@ == apply(old(self).v@, event)
    {
        match event {
            VecEvent::InitialComplete => {
                self.complete = true;
            }
            VecEvent::Push(v) => {
                self.v.push(v);
                if self.v.len() > self.max_size {
                    return Err(RecvError::MaxSizeExceeded(self.max_size));
                }
            }
            VecEvent::Pop => {
                self.v.pop();
            }
            VecEvent::Insert(i, v) => {
                if i > self.v.len() {
                    return Err(RecvError::InvalidIndex(i));
                }
                self.v.insert(i, v);
            }
            VecEvent::Set(i, v) => {
                if i >= self.v.len() {
                    return Err(RecvError::InvalidIndex(i));
                }
                self.v[i] = v;
            }
            VecEvent::Remove(i) => {
                if i >= self.v.len() {
                    return Err(RecvError::InvalidIndex(i));
                }
                self.v.remove(i);
            }
            VecEvent::SwapRemove(i) => {
                if i >= self.v.len() {
                    return Err(RecvError::InvalidIndex(i));
                }
                self.v.swap_remove(i);
            }
            VecEvent::Truncate(l) => {
                self.v.truncate(l);
            }
            VecEvent::Clear => {
                self.v.clear();
            }
            VecEvent::Done => {
                self.done = true;
            }
        }
        Ok(())
    }
}
}
fn main() {}
