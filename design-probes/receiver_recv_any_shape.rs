#![feature(allocator_api)]
use vstd::prelude::*;
use std::collections::VecDeque;
verus! {
pub assume_specification<T> [std::mem::replace] (a: &mut T, b: T) -> (r: T) ensures r == *old(a), *final(a) == b;
#[verifier::external_body] fn vpanic() -> ! requires false { panic!() }

#[verifier::external_body]
struct Bytes { b: Vec<u8> }
impl View for Bytes { type V = Seq<u8>; uninterp spec fn view(&self) -> Seq<u8>; }
impl Bytes {
    #[verifier::external_body]
    fn len(&self) -> (r: usize) ensures r == self@.len() { self.b.len() }
}
struct UsedCredit(u32);
struct Request { remote_port: u32, id: u32 }
struct ReceivedData { buf: Bytes, first: bool, last: bool, credit: UsedCredit }
struct ReceivedPortRequests { requests: Vec<Request>, first: bool, last: bool, credit: UsedCredit }
enum PortReceiveMsg { Data(ReceivedData), PortRequests(ReceivedPortRequests), Finished }

struct DataBuf { bufs: VecDeque<Bytes>, remaining: usize }
impl DataBuf {
    spec fn wf(&self) -> bool { self.remaining == total(self.bufs@) }
    fn new() -> (r: Self) ensures r.wf(), r.bufs@.len() == 0 { proof { assert(total(Seq::<Bytes>::empty()) == 0) by { reveal_with_fuel(total, 1); } } Self { bufs: VecDeque::new(), remaining: 0 } }
    fn try_push(&mut self, buf: Bytes, max_size: usize) -> (r: Result<(), Bytes>)
        requires old(self).wf()
        ensures final(self).wf(),
            match r { Ok(()) => final(self).bufs@ == old(self).bufs@.push(buf) && final(self).remaining <= max_size,
                      Err(b) => b == buf && final(self).bufs@ == old(self).bufs@ && old(self).remaining + buf@.len() > max_size }
    {
        match self.remaining.checked_add(buf.len()) {
            Some(new_size) => { if new_size <= max_size {
                self.bufs.push_back(buf);
                self.remaining = new_size;
                proof { assert(self.bufs@.drop_last() =~= old(self).bufs@); }
                Ok(()) } else { Err(buf) }
            }
            _ => Err(buf),
        }
    }
}
spec fn total(s: Seq<Bytes>) -> nat decreases s.len() { if s.len() == 0 { 0 } else { total(s.drop_last()) + s.last()@.len() } }

enum Received { Data(DataBuf), Chunks, Requests(Vec<Request>) }
enum Receiving { Nothing, Data(DataBuf), Chunks { chunks: VecDeque<Bytes>, completed: bool }, Requests(Vec<Request>) }
fn vtake_receiving(r: &mut Receiving) -> (x: Receiving) ensures x == *old(r), *final(r) is Nothing { std::mem::replace(r, Receiving::Nothing) }

enum RecvError { ChMux, ExceedsMaxDataSize(usize), ExceedsMaxPortCount(usize) }
struct Rx { q: Ghost<Seq<PortReceiveMsg>> }
impl Rx {
    #[verifier::external_body]
    fn recv(&mut self) -> (r: Option<PortReceiveMsg>)
        ensures match r { Some(m) => old(self).q@.len() > 0 && m == old(self).q@[0] && final(self).q@ == old(self).q@.skip(1),
                          None => final(self).q@ == old(self).q@ }
    { None }
}
struct Returner { g: Ghost<nat> }
impl Returner {
    #[verifier::external_body] fn return_flush(&mut self) { }
    #[verifier::external_body] fn start_return(&mut self, credit: UsedCredit, remote_port: u32) ensures final(self).g@ == old(self).g@ + credit.0 { }
}
#[verifier::external_body] fn vextend<T>(a: &mut Vec<T>, b: Vec<T>) ensures final(a)@ == old(a)@ + b@ { a.extend(b) }
struct Receiver { remote_port: u32, max_data_size: usize, max_ports: usize, rx: Rx, receiving: Receiving, credits: Returner, finished: bool }

spec fn rwf(r: Receiving) -> bool { r matches Receiving::Data(d) ==> d.wf() }

impl Receiver {
    #[verifier::exec_allows_no_decreases_clause]
    fn recv_any(&mut self) -> (r: Result<Option<Received>, RecvError>)
        requires rwf(old(self).receiving)
        ensures rwf(final(self).receiving),
           r matches Ok(Some(Received::Data(d))) ==> d.wf() && d.remaining <= old(self).max_data_size,
    {
        if self.finished {
            return Ok(None);
        }

        loop
            invariant rwf(self.receiving), self.max_data_size == old(self).max_data_size
        {
            self.credits.return_flush();

            match self.rx.recv() {
                Some(PortReceiveMsg::Data(data)) => {
                    self.credits.start_return(data.credit, self.remote_port);

                    if data.first {
                        self.receiving = Receiving::Data(DataBuf::new());
                    }

                    if let Receiving::Data(mut data_buf) = vtake_receiving(&mut self.receiving) {
                        match data_buf.try_push(data.buf, self.max_data_size) {
                            Ok(()) => {
                                if data.last {
                                    return Ok(Some(Received::Data(data_buf)));
                                } else {
                                    self.receiving = Receiving::Data(data_buf);
                                }
                            }
                            Err(buf) => {
                                data_buf.bufs.push_back(buf);
                                self.receiving =
                                    Receiving::Chunks { chunks: data_buf.bufs, completed: data.last };
                                return Ok(Some(Received::Chunks));
                            }
                        }
                    }
                }
                Some(PortReceiveMsg::PortRequests(req)) => {
                    self.credits.start_return(req.credit, self.remote_port);

                    if req.first {
                        self.receiving = Receiving::Requests(Vec::new());
                    }

                    if let Receiving::Requests(mut requests) = vtake_receiving(&mut self.receiving) {
                        vextend(&mut requests, req.requests);

                        if requests.len() > self.max_ports {
                            self.receiving = Receiving::Nothing;
                            return Err(RecvError::ExceedsMaxPortCount(self.max_ports));
                        }

                        if req.last {
                            return Ok(Some(Received::Requests(requests)));
                        } else {
                            self.receiving = Receiving::Requests(requests);
                        }
                    }
                }
                Some(PortReceiveMsg::Finished) => {
                    self.finished = true;
                    return Ok(None);
                }
                None => return Err(RecvError::ChMux),
            }
        }
    }
}
}
fn main() {}
