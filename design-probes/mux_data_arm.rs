use vstd::prelude::*;
use std::collections::HashMap;
verus! {
#[verifier::external_body] fn vpanic() -> ! requires false { panic!() }
#[verifier::external_body] fn vstr() -> String { String::new() }
enum ChMuxError { Protocol(String), Reset }
fn protocol_err(msg: String) -> (r: ChMuxError) ensures r is Protocol { ChMuxError::Protocol(msg) }

struct UsedCredit(u32);
struct Monitor { used: u32, limit: u32 }
impl Monitor {
    fn use_credits(&mut self, credits: u32) -> (r: Result<UsedCredit, ChMuxError>)
        requires old(self).used <= old(self).limit
        ensures final(self).limit == old(self).limit,
            match r { Ok(c) => c.0 == credits && final(self).used == old(self).used + credits && final(self).used <= final(self).limit,
                      Err(e) => final(self).used == old(self).used && e is Protocol }
    {
        match self.used.checked_add(credits) {
            Some(new_used) => {
                if new_used <= self.limit { self.used = new_used; Ok(UsedCredit(credits)) }
                else { Err(ChMuxError::Protocol(vstr())) }
            }
            _ => Err(ChMuxError::Protocol(vstr())),
        }
    }
}
struct Frame { bytes: Seq<u8>, first: bool, last: bool }
struct RxQ { q: Ghost<Seq<Frame>> }
struct Bytes { v: Vec<u8> }
impl Bytes { fn len(&self) -> (r: usize) ensures r == self.v@.len() { self.v.len() } }
struct ReceivedData { buf: Bytes, first: bool, last: bool, credit: UsedCredit }
impl RxQ {
    #[verifier::external_body]
    fn send(&mut self, d: ReceivedData) -> (r: Result<(), ()>)
        ensures final(self).q@ == old(self).q@.push(Frame { bytes: d.buf.v@, first: d.first, last: d.last })
    { Ok(()) }
}
enum PortState {
    Connecting { response_tx: u32 },
    Connected { remote_port: u32, receiver_tx_data: Option<RxQ>, receiver_credit_monitor: Monitor, sender_dropped: bool },
}
#[verifier::external_body]
#[verifier::reject_recursive_types(V)]
struct Table<V> { m: HashMap<u32, V> }
impl<V> View for Table<V> { type V = Map<u32, V>; uninterp spec fn view(&self) -> Map<u32, V>; }
impl<V> Table<V> {
    #[verifier::external_body]
    fn get_mut(&mut self, k: &u32) -> (r: Option<&mut V>)
        ensures match r {
            Some(v) => old(self)@.contains_key(*k) && *v == old(self)@[*k] && final(self)@ == old(self)@.insert(*k, *final(v)),
            None => !old(self)@.contains_key(*k) && final(self)@ == old(self)@,
        }
    { self.m.get_mut(k) }
}
struct Cfg { chunk_size: u32, receive_buffer: u32 }
struct Mux { ports: Table<PortState>, local_cfg: Cfg }

spec fn port_inv(p: PortState, cfg: Cfg) -> bool {
    p matches PortState::Connected { receiver_credit_monitor, .. } ==> receiver_credit_monitor.used <= receiver_credit_monitor.limit && receiver_credit_monitor.limit == cfg.receive_buffer
}
impl Mux {
    spec fn inv(&self) -> bool { forall|k: u32| self.ports@.contains_key(k) ==> port_inv(#[trigger] self.ports@[k], self.local_cfg) }

    fn data_arm(&mut self, port: u32, first: bool, last: bool, data: Option<Bytes>) -> (r: Result<(), ChMuxError>)
        requires old(self).inv(), data is Some
        ensures r.is_ok() ==> final(self).inv(),
            r.is_ok() ==> data->0.v@.len() <= old(self).local_cfg.chunk_size,
            r.is_err() ==> r->Err_0 is Protocol,
    {
        if let Some(PortState::Connected {
            receiver_tx_data: Some(receiver_tx_data),
            receiver_credit_monitor,
            ..
        }) = self.ports.get_mut(&port)
        {
            let data = data.unwrap();
            let used_credit = match u32::try_from(data.len()) {
                Ok(size) => { if size <= self.local_cfg.chunk_size {
                    receiver_credit_monitor.use_credits(size.max(1))? } else { return Err(protocol_err(vstr())); }
                }
                _ => {
                    return Err(protocol_err(vstr()));
                }
            };
            let _ = receiver_tx_data.send(ReceivedData {
                buf: data,
                first,
                last,
                credit: used_credit,
            });
        } else {
            return Err(protocol_err(vstr()));
        }
        Ok(())
    }
}
}
fn main() {}
