#![feature(allocator_api)]
use vstd::prelude::*;
use std::collections::VecDeque;
verus! {
pub assume_specification<T, A: core::alloc::Allocator> [VecDeque::<T, A>::is_empty] (v: &VecDeque<T, A>) -> (r: bool) ensures r == (v@.len() == 0);

enum Receiving { Nothing, Data(Vec<u8>), Chunks { chunks: VecDeque<u32>, completed: bool } }
struct Msg { buf: u32, first: bool, last: bool }
struct Rx { q: Ghost<Seq<Msg>> }
impl Rx {
    #[verifier::external_body]
    fn recv(&mut self) -> (r: Option<Msg>)
        ensures match r { Some(m) => old(self).q@.len() > 0 && m == old(self).q@[0] && final(self).q@ == old(self).q@.skip(1),
                          None => old(self).q@.len() == 0 && final(self).q@ == old(self).q@ }
    { None }
}
#[verifier::external_body] fn vunreachable() -> ! requires false { unreachable!() }
struct R { receiving: Receiving, rx: Rx, finished: bool }
enum E { ChMux, Cancelled }

impl R {
    #[verifier::exec_allows_no_decreases_clause]
    fn recv_chunk(&mut self) -> (r: Result<Option<u32>, E>)
        ensures r matches Err(E::Cancelled) ==> true
    {
        if self.finished {
            return Ok(None);
        }

        loop
            invariant true
        {
            let __g0 = match &self.receiving { Receiving::Chunks { chunks, .. } => !chunks.is_empty(), _ => false };
            if __g0 { match &mut self.receiving {
                Receiving::Chunks { chunks, .. } => {
                    return Ok(Some(chunks.pop_front().unwrap()));
                }
                _ => { vunreachable() } } }
            else { match &mut self.receiving {
                Receiving::Chunks { completed: true, .. } => {
                    self.receiving = Receiving::Nothing;
                    return Ok(None);
                }
                _ => match self.rx.recv() {
                    Some(data) => {
                        match (&self.receiving, data.first) {
                            (Receiving::Chunks { .. }, true) => {
                                let mut c = VecDeque::new(); c.push_back(data.buf);
                                self.receiving =
                                    Receiving::Chunks { chunks: c, completed: data.last };
                                return Err(E::Cancelled);
                            }
                            (Receiving::Chunks { .. }, false) | (_, true) => {
                                self.receiving =
                                    Receiving::Chunks { chunks: VecDeque::new(), completed: data.last };
                                return Ok(Some(data.buf));
                            }
                            (_, false) => (),
                        }
                    }
                    None => return Err(E::ChMux),
                },
            } }
        }
    }
}
}
fn main() {}
