use vstd::prelude::*;
verus! {
// ---- env (assumed) ----
tracked struct VLog<E> { ghost log: Seq<E> }
#[verifier::external_body] #[verifier::accept_recursive_types(E)]
struct VBroadcast<E> { _p: core::marker::PhantomData<E> }
#[verifier::external_body] struct VChange { }
#[verifier::external_body] struct VOnErr { }
impl VChange { #[verifier::external_body] fn notify(&self) {} }
#[verifier::external_body]
fn send_event<E>(tx: &VBroadcast<E>, on_err: &VOnErr, event: E, Tracked(vlog): Tracked<&mut VLog<E>>)
    ensures final(vlog).log == old(vlog).log.push(event)
{ }
#[verifier::external_body] fn vpanic() -> ! requires false { panic!() }
#[verifier::external_body]
fn vclone<T>(x: &T) -> (r: T) ensures r == *x { unimplemented!() }

enum VecEvent<T> { Push(T), Pop, Set(usize, T), Done }

spec fn apply<T>(s: Seq<T>, e: VecEvent<T>) -> Seq<T> {
    match e {
        VecEvent::Push(v) => s.push(v),
        VecEvent::Pop => if s.len() > 0 { s.drop_last() } else { s },
        VecEvent::Set(i, v) => if i < s.len() { s.update(i as int, v) } else { s },
        _ => s,
    }
}
spec fn replay<T>(s: Seq<T>, es: Seq<VecEvent<T>>) -> Seq<T> decreases es.len() {
    if es.len() == 0 { s } else { apply(replay(s, es.drop_last()), es.last()) }
}
proof fn lemma_replay_push<T>(s: Seq<T>, es: Seq<VecEvent<T>>, e: VecEvent<T>)
    ensures replay(s, es.push(e)) == apply(replay(s, es), e)
{ assert(es.push(e).drop_last() =~= es); }

struct ObservableVec<T> { v: Vec<T>, tx: VBroadcast<VecEvent<T>>, change: VChange, on_err: VOnErr, done: bool }

struct RefMut<'a, T> { index: usize, value: &'a mut T, changed: bool, tx: &'a VBroadcast<VecEvent<T>>, change: &'a VChange, on_err: &'a VOnErr }

impl<T> ObservableVec<T> {
    spec fn inv(&self, v0: Seq<T>, log: Seq<VecEvent<T>>) -> bool { replay(v0, log) == self.v@ }

    fn assert_not_done(&self) requires !self.done {
        if self.done { vpanic(); }
    }

    fn push(&mut self, value: T, Tracked(vlog): Tracked<&mut VLog<VecEvent<T>>>, Ghost(v0): Ghost<Seq<T>>)
        requires !old(self).done, old(self).inv(v0, old(vlog).log)
        ensures final(self).inv(v0, final(vlog).log), final(self).done == old(self).done
    {
        self.assert_not_done();
        self.change.notify();

        send_event(&self.tx, &self.on_err, VecEvent::Push(vclone(&value)), Tracked(vlog));
        self.v.push(value);
        proof { lemma_replay_push(v0, old(vlog).log, VecEvent::Push(value)); }
    }

    fn pop(&mut self, Tracked(vlog): Tracked<&mut VLog<VecEvent<T>>>, Ghost(v0): Ghost<Seq<T>>) -> (r: Option<T>)
        requires !old(self).done, old(self).inv(v0, old(vlog).log)
        ensures final(self).inv(v0, final(vlog).log)
    {
        self.assert_not_done();

        match self.v.pop() {
            Some(value) => {
                self.change.notify();
                send_event(&self.tx, &self.on_err, VecEvent::Pop, Tracked(vlog));
                proof { lemma_replay_push(v0, old(vlog).log, VecEvent::Pop); }
                Some(value)
            }
            None => None,
        }
    }

    fn get_mut(&mut self, index: usize) -> (r: Option<RefMut<'_, T>>)
        requires !old(self).done
    {
        self.assert_not_done();

        match self.v.get_mut(index) {
            Some(value) => Some(RefMut {
                index,
                value,
                changed: false,
                tx: &self.tx,
                change: &self.change,
                on_err: &self.on_err,
            }),
            None => None,
        }
    }
}
impl<'a, T> RefMut<'a, T> {
    fn deref_mut(&mut self) -> (r: &mut T) ensures final(self).changed {
        self.changed = true;
        self.value
    }
    fn drop(&mut self, Tracked(vlog): Tracked<&mut VLog<VecEvent<T>>>)
        ensures old(self).changed ==> final(vlog).log == old(vlog).log.push(VecEvent::Set(old(self).index, *old(self).value)),
                !old(self).changed ==> final(vlog).log == old(vlog).log
    {
        if self.changed {
            self.change.notify();
            send_event(self.tx, self.on_err, VecEvent::Set(self.index, vclone(&*self.value)), Tracked(vlog));
        }
    }
}
}
fn main() {}
