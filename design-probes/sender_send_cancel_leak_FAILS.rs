use vstd::prelude::*;
verus! {

// ---- environment stubs (assumed) ----
#[verifier::external_body]
#[verifier::reject_recursive_types(T)]
struct Tx<T> { _p: core::marker::PhantomData<T> }

#[verifier::external_body]
struct Bytes { b: Vec<u8> }

impl View for Bytes { type V = Seq<u8>; uninterp spec fn view(&self) -> Seq<u8>; }

impl Bytes {
    #[verifier::external_body]
    fn is_empty(&self) -> (r: bool) ensures r == (self@.len() == 0) { self.b.is_empty() }
    #[verifier::external_body]
    fn len(&self) -> (r: usize) ensures r == self@.len() { self.b.len() }
    #[verifier::external_body]
    fn split_to(&mut self, at: usize) -> (r: Bytes)
        requires at <= old(self)@.len()
        ensures r@ == old(self)@.take(at as int), final(self)@ == old(self)@.skip(at as int)
    { let rest = self.b.split_off(at); let head = core::mem::replace(&mut self.b, rest); Bytes { b: head } }
}

enum SendError { ChMux, Closed { gracefully: bool } }

struct AssignedCredits { port: u32 }
impl AssignedCredits {
    fn default() -> (r: Self) ensures r.port == 0 { AssignedCredits { port: 0 } }
    fn is_empty(&self) -> (r: bool) ensures r == (self.port == 0) { self.port == 0 }
    fn available(&self) -> (r: u32) ensures r == self.port { self.port }
    fn take(&mut self, credits: u32)
        requires old(self).port >= credits,
        ensures final(self).port == old(self).port - credits,
    {
        if self.port >= credits { self.port -= credits; } else { vpanic() }
    }
}
#[verifier::external_body]
fn vpanic() -> ! requires false { panic!() }

struct CreditUser { granted: Ghost<nat> }
impl CreditUser {
    #[verifier::external_body]
    fn request(&mut self, req: u32, min_req: u32) -> (r: Result<AssignedCredits, SendError>)
        requires req > 0
        ensures match r { Ok(c) => min_req <= c.port <= req && c.port >= 1 && final(self).granted@ == old(self).granted@ + c.port,
                          Err(_) => final(self).granted@ == old(self).granted@ }
    { unimplemented!() }
}
#[verifier::external_body] fn vcancel_point() -> bool { false }
#[verifier::external_body] fn vdiverge() -> ! { loop {} }
spec fn cost1(f: Frame) -> nat { if f.data.len() == 0 { 1 } else { f.data.len() } }
spec fn cost(fs: Seq<Frame>) -> nat decreases fs.len() { if fs.len() == 0 { 0 } else { cost(fs.drop_last()) + cost1(fs.last()) } }


struct Frame { remote_port: u32, data: Seq<u8>, first: bool, last: bool }

enum PortEvt { SendData { remote_port: u32, data: Bytes, first: bool, last: bool } }

impl PortEvt {
    spec fn frame(self) -> Frame {
        match self { PortEvt::SendData { remote_port, data, first, last } => Frame { remote_port, data: data@, first, last } }
    }
}

struct Chan { log: Ghost<Seq<Frame>> }
impl Chan {
    #[verifier::external_body]
    fn send(&mut self, msg: PortEvt) -> (r: Result<(), SendError>)
        ensures r.is_ok() ==> final(self).log@ == old(self).log@.push(msg.frame()),
                r.is_err() ==> final(self).log@ == old(self).log@,
    { unimplemented!() }
}

struct Sender { remote_port: u32, chunk_size: usize, tx: Chan, credits: CreditUser }

spec fn ext<A>(a: Seq<A>, b: Seq<A>) -> bool { a.len() <= b.len() && forall|i: int| 0 <= i < a.len() ==> b[i] == a[i] }
spec fn concat(fs: Seq<Frame>) -> Seq<u8> decreases fs.len() {
    if fs.len() == 0 { Seq::empty() } else { concat(fs.drop_last()) + fs.last().data }
}

impl Sender {
    fn send(&mut self, mut data: Bytes) -> (r: Result<(), SendError>)
        requires old(self).chunk_size >= 4,
        ensures
            ext(old(self).tx.log@, final(self).tx.log@),
            r.is_ok() ==> concat(final(self).tx.log@.skip(old(self).tx.log@.len() as int)) == data@,
    {
        let ghost log0 = self.tx.log@;
        let ghost data0 = data@;
        let ghost g0 = self.credits.granted@;
        if data.is_empty() {
            let mut credits = self.credits.request(1, 1)?;
            credits.take(1);

            let msg = PortEvt::SendData { remote_port: self.remote_port, data, first: true, last: true };
            self.tx.send(msg)?;
            proof { assert(self.tx.log@.skip(log0.len() as int) =~= seq![msg.frame()]);
               assert(concat(seq![msg.frame()]) =~= data0) by { reveal_with_fuel(concat, 3); assert(seq![msg.frame()].drop_last() =~= Seq::empty()); } }
        } else {
            let mut first = true;
            let mut credits = AssignedCredits::default();

            while !data.is_empty()
                invariant
                    self.chunk_size >= 4,
                    ext(log0, self.tx.log@), log0 == old(self).tx.log@,
                    concat(self.tx.log@.skip(log0.len() as int)) + data@ == data0,
                    g0 == old(self).credits.granted@,
                    self.credits.granted@ - g0 == cost(self.tx.log@.skip(log0.len() as int)) + credits.port,
                decreases data@.len()
            {
                if credits.is_empty() {
                    credits = self.credits.request(data.len().min(u32::MAX as usize) as u32, 1)?;
                }

                let at = data.len().min(self.chunk_size).min(credits.available() as usize);
                let chunk = data.split_to(at);

                credits.take(chunk.len() as u32);

                let msg = PortEvt::SendData {
                    remote_port: self.remote_port,
                    data: chunk,
                    first,
                    last: data.is_empty(),
                };
                let ghost pre = self.tx.log@;
                if vcancel_point() { assert(self.credits.granted@ - g0 == cost(self.tx.log@.skip(log0.len() as int)) + credits.port); vdiverge() }
                self.tx.send(msg)?;
                proof {
                    let suf = self.tx.log@.skip(log0.len() as int);
                    assert(suf.drop_last() =~= pre.skip(log0.len() as int));
                    assert(suf.last() == msg.frame());
                    assert(cost(suf) == cost(suf.drop_last()) + cost1(suf.last()));
                }

                first = false;
            }
            proof { assert(data@ =~= Seq::empty()); }
        }

        Ok(())
    }
}
}
fn main() {}
