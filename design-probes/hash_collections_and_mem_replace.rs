use vstd::prelude::*;
use std::collections::{HashMap, HashSet};
use std::hash::Hash;
verus! {
broadcast use vstd::std_specs::hash::group_hash_axioms;
enum Ev<K, V> { Set(K, V), Remove(K), Clear, Done }
struct M<K, V> { hm: HashMap<K, V>, done: bool, max_size: usize }
spec fn apply<K, V>(m: Map<K, V>, e: Ev<K, V>) -> Map<K, V> {
    match e { Ev::Set(k, v) => m.insert(k, v), Ev::Remove(k) => m.remove(k), Ev::Clear => Map::empty(), Ev::Done => m }
}
impl<K: Eq + Hash, V> M<K, V> {
    fn handle_event(&mut self, event: Ev<K, V>) -> (r: Result<(), usize>)
        requires vstd::std_specs::hash::obeys_key_model::<K>(), vstd::std_specs::hash::builds_valid_hashers::<std::hash::RandomState>()
        ensures r.is_ok() ==> final(self).hm@ == apply(old(self).hm@, event)
    {
        match event {
            Ev::Set(k, v) => {
                self.hm.insert(k, v);
                if self.hm.len() > self.max_size {
                    return Err(self.max_size);
                }
            }
            Ev::Remove(k) => {
                self.hm.remove(&k);
            }
            Ev::Clear => {
                self.hm.clear();
            }
            Ev::Done => {
                self.done = true;
            }
        }
        Ok(())
    }
}
struct S<T> { hs: HashSet<T> }
impl<T: Eq + Hash> S<T> {
    fn h(&mut self, a: T, b: T)
        requires vstd::std_specs::hash::obeys_key_model::<T>(), vstd::std_specs::hash::builds_valid_hashers::<std::hash::RandomState>()
    {
        self.hs.insert(a);
        self.hs.remove(&b);
        self.hs.clear();
        let n = self.hs.len();
    }
}
pub assume_specification<T> [std::mem::replace] (a: &mut T, b: T) -> (r: T) ensures r == *old(a), *final(a) == b;
#[derive(Default)]
enum Receiving { #[default] Nothing, Data(Vec<u8>) }
struct R { receiving: Receiving }
fn t(r: &mut R) -> (x: Receiving) ensures final(r).receiving is Nothing, x == old(r).receiving {
    core::mem::replace(&mut r.receiving, Receiving::Nothing)
}
}
fn main() {}
