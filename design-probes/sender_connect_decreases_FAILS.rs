#![feature(allocator_api)]
use vstd::prelude::*;
verus! {
struct AssignedCredits { port: u32 }
impl AssignedCredits {
    fn default() -> (r: Self) ensures r.port == 0 { AssignedCredits { port: 0 } }
    fn is_empty(&self) -> (r: bool) ensures r == (self.port == 0) { self.port == 0 }
    fn available(&self) -> (r: u32) ensures r == self.port { self.port }
    fn take(&mut self, credits: u32) requires old(self).port >= credits, ensures final(self).port == old(self).port - credits,
    { if self.port >= credits { self.port -= credits; } else { vpanic() } }
}
#[verifier::external_body] fn vpanic() -> ! requires false { panic!() }
enum SendError { ChMux }
struct CreditUser { granted: Ghost<nat> }
impl CreditUser {
    #[verifier::external_body]
    fn request(&mut self, req: u32, min_req: u32) -> (r: Result<AssignedCredits, SendError>)
        requires req > 0
        ensures match r { Ok(c) => min_req <= c.port <= req && c.port >= 1, Err(_) => true }
    { unimplemented!() }
}
struct Chan { log: Ghost<Seq<Seq<u32>>> }
impl Chan {
    #[verifier::external_body]
    fn send(&mut self, ports: Vec<u32>, first: bool, last: bool) -> (r: Result<(), SendError>)
        ensures r.is_ok() ==> final(self).log@ == old(self).log@.push(ports@), r.is_err() ==> final(self).log@ == old(self).log@,
    { unimplemented!() }
}


struct Sender { chunk_size: usize, tx: Chan, credits: CreditUser }
impl Sender {
    fn connect(&mut self, ports: Vec<u32>) -> (r: Result<(), SendError>)
        requires old(self).chunk_size >= 4, ports@.len() < 0x3fff_ffff
    {
        let mut ports_response = ports;
        let mut first = true;
        let mut credits = AssignedCredits::default();

        while !ports_response.is_empty()
            invariant self.chunk_size >= 4, ports_response@.len() < 0x3fff_ffff
            decreases ports_response@.len()
        {
            if credits.is_empty() {
                let data_len = ports_response.len() * 4;
                credits =
                    self.credits.request(data_len.min(u32::MAX as usize) as u32, 4 as u32)?;
            }

            let max_ports = self.chunk_size.min(credits.available() as usize) / 4;
            let next =
                if ports_response.len() > max_ports { ports_response.split_off(max_ports) } else { Vec::new() };

            credits.take((ports_response.len() * 4) as u32);

            self.tx.send(ports_response, first, next.is_empty())?;

            ports_response = next;
            first = false;
        }
        Ok(())
    }
}
}
fn main() {}
