"""vx: extract real functions from /repo, normalise them with logged rewrite
rules, splice side-car contracts, run Verus, attribute every diagnostic to a
named obligation.

Template (units/*.vx) grammar -- everything not a directive is raw Verus text:

  //@ unit <name>
  //@ file <relpath>                      default source file for following items
  //@ gsub <RULE> `regex` => `repl`       applied to every extracted item (may match 0x)
  //@ struct|enum|const <Name> [file=..]  extract an item (R1 + gsubs + subs)
  //@   sub <RULE> `regex` => `repl`
  //@ end
  //@ fn <Type::name|name> [file=..] [impl=`re`] [nth=k] [as=newname]
  //@   props C01 C02                     properties of the implicit safety obligation
  //@   implhdr <text>                    emitted impl header (default `impl Type`)
  //@   ret <name>                        name the return value
  //@   sig <text>                        replace the whole signature (logged)
  //@   addparam <text>                   extra trailing parameter(s) (R14)
  //@   sub <RULE> `regex` => `repl`      must match >=1x, else anchor lost (exit 2)
  //@   sub? <RULE> `regex` => `repl`     optional
  //@   spec / loop <k> / before `re` [#k] / after `re` [#k]   followed by text lines
  //@ end
  //# label: C01 C02                      obligation marker for the next clause(s)
  //#! mustfail <name>                    region until `//#! end` must produce an error
"""
import difflib
import hashlib
import json
import os
import re
import subprocess
import sys
import time

from rustscan import Source, ScanError, mask, match_close, loops_in, line_of, find_body_open

VERIF = os.path.dirname(os.path.dirname(os.path.abspath(__file__)))
REPO = os.environ.get('VERIF_REPO', '/repo')


class Undecided(Exception):
    """Framework cannot decide (anchor lost, unsupported construct, ...)."""


# ---------------------------------------------------------------------------
# global rewrite rules (DESIGN section 2).  Each is (rule id, regex, repl, note)
# applied to every extracted function text; every application is logged.
# ---------------------------------------------------------------------------
GLOBAL_RULES = [
    ('R1', r'(?m)^[ \t]*///.*\n', '', 'doc comment'),
    ('R1', r'(?m)^[ \t]*//[^@#\n].*\n', '', 'comment line'),
    ('R1', r'(?m)[ \t]+//[^\n]*$', '', 'trailing comment'),
    ('R1', r'(?m)^[ \t]*#\[(?!default\])(?:[^\[\]]|\[[^\]]*\])*\]\s*\n', '', 'attribute'),
    ('R1', r'\bpub(\s*\((crate|super|in [^)]*)\))?\s+', '', 'visibility'),
    ('R4', r'(?m)^[ \t]*tracing::\w+!\((?:[^()]|\((?:[^()]|\([^()]*\))*\))*\);[ \t]*\n', '', 'log statement'),
    ('R2', r'\basync\s+fn\b', 'fn', 'async fn'),
    ('R2', r'\s*\.await\b', '', 'await erased'),
    ('R5', r'\b(?:panic|unreachable)!\((?:[^()]|\((?:[^()]|\([^()]*\))*\))*\)', 'vpanic()', 'panic -> obligation'),
    ('R4', r'\bformat!\((?:[^()]|\((?:[^()]|\([^()]*\))*\))*\)', 'vstr()', 'error string'),
    ('R4', r'"[^"\n]*"\.to_string\(\)', 'vstr()', 'error string'),
    ('R5', r'\bdebug_assert!\(((?:[^()]|\((?:[^()]|\([^()]*\))*\))*)\);', r'if !(\1) { vpanic() }', 'debug_assert -> obligation'),
    ('R5', r'\bassert!\(((?:[^(),]|\((?:[^()]|\([^()]*\))*\))*),\s*"[^"]*"\s*\);', r'if !(\1) { vpanic() }', 'assert -> obligation'),
    ('R5', r'\bassert!\(((?:[^(),]|\((?:[^()]|\([^()]*\))*\))*)\);', r'if !(\1) { vpanic() }', 'assert -> obligation'),
]

VERIF_FAIL = re.compile(
    r'postcondition not satisfied|precondition not satisfied|assertion failed|invariant not satisfied'
    r'|decreases not satisfied|possible arithmetic underflow/overflow|possible division by zero'
    r'|possible bit shift|could not prove termination|unable to prove|assertion failed'
    r'|failed to prove|might fail|cannot show|not satisfied', re.I)
UNDECIDED_MSG = re.compile(r'rlimit|resource limit|timed out|timeout|solver', re.I)


def parse_bt(s):
    """`a` => `b`  -> (a, b)"""
    m = re.match(r'\s*`((?:[^`])*)`\s*=>\s*`((?:[^`])*)`\s*$', s, re.S)
    if not m:
        raise Undecided('bad substitution syntax: ' + s)
    return m.group(1), m.group(2)



def _split_top(text, m, sep):
    """split `text` (mask m) on `sep` at bracket depth 0"""
    parts, d, last, i = [], 0, 0, 0
    while i < len(text):
        ch = m[i]
        if ch in '([{':
            d += 1
        elif ch in ')]}':
            d -= 1
        elif d == 0 and m.startswith(sep, i):
            parts.append(text[last:i])
            last = i + len(sep)
            i += len(sep)
            continue
        i += 1
    parts.append(text[last:])
    return parts


def rewrite_let_chains(text):
    """R8 (general): `if A && let P = E && B { body }` (no else) -> nested ifs.  Returns (text, count)."""
    count = 0
    pos = 0
    while True:
        m = mask(text)
        mt = re.compile(r'(?<![A-Za-z0-9_])if\b').search(m, pos)
        if not mt:
            return text, count
        i = mt.start()
        try:
            o = find_body_open(m, mt.end())
        except ScanError:
            pos = mt.end()
            continue
        cond = text[mt.end():o]
        atoms = _split_top(cond, m[mt.end():o], '&&')
        if len(atoms) > 1 and any(a.strip().startswith('let ') for a in atoms):
            c = match_close(m, o)
            if m[c + 1:].lstrip().startswith('else'):
                raise Undecided('let-chain with an else branch is outside rule R8')
            if '||' in ''.join(_split_top(a, mask(a), '\x00')[0] for a in atoms if not a.strip().startswith('(')) and False:
                pass
            new = ''.join('if %s { ' % a.strip() for a in atoms) + text[o + 1:c] + ' }' * len(atoms)
            text = text[:i] + new + text[c + 1:]
            count += 1
            pos = i + 2
        else:
            pos = mt.end()


class Obl:
    def __init__(self, oid, props, fn=None, kind='clause', text=''):
        self.id = oid
        self.props = props
        self.fn = fn
        self.kind = kind
        self.text = text
        self.errors = []


class FnRec:
    def __init__(self):
        self.name = None
        self.file = None
        self.src_line = None
        self.orig = ''
        self.final = ''
        self.rewrites = []
        self.props = []
        self.fingerprint = ''
        self.stats = {}
        self.awaits = 0


class Unit:
    def __init__(self, path):
        self.path = path
        self.name = os.path.basename(path)[:-3]
        self.lines = []      # generated lines
        self.meta = []       # per line: dict(fn=, obl=, mustfail=)
        self.obls = {}       # id -> Obl
        self.fns = []        # FnRec
        self.gsubs = []
        self.mustfail = {}   # name -> hit?
        self.assumptions = []
        self.sources = {}
        self.imports = []

    # -- helpers ----------------------------------------------------------
    def src(self, rel):
        if rel not in self.sources and rel.startswith('gen:rtcsample:'):
            # the same generator, run on an input trait kept in /verif/gen/samples (exercises generator paths that no
            # trait of the repository's tests reaches); the verified text is still the generator's output
            import rtcgen
            try:
                text = rtcgen.generate(REPO, rel[len('gen:rtcsample:'):], os.environ.get('VERIF_BUILD', os.path.join(os.path.dirname(os.path.dirname(os.path.abspath(__file__))), 'build')),
                                       sample_dir=os.path.join(VERIF, 'gen', 'samples'))
            except rtcgen.GenError as e:
                raise Undecided(str(e))
            self.sources[rel] = Source(rel, text)
        if rel not in self.sources and rel.startswith('gen:rtc:'):
            # code generated by the repository's own remoc_macro for the traits of a repository file (lib/rtcgen.py)
            import rtcgen
            try:
                text = rtcgen.generate(REPO, rel[len('gen:rtc:'):], os.environ.get('VERIF_BUILD', os.path.join(os.path.dirname(os.path.dirname(os.path.abspath(__file__))), 'build')))
            except rtcgen.GenError as e:
                raise Undecided(str(e))
            self.sources[rel] = Source(rel, text)
        if rel not in self.sources:
            p = os.path.join(REPO, rel)
            if not os.path.exists(p):
                raise Undecided('source file missing: ' + rel)
            self.sources[rel] = Source(rel, open(p).read())
        return self.sources[rel]

    def emit(self, text, fn=None, obl=None, mustfail=None):
        for ln in text.split('\n'):
            self.lines.append(ln)
            self.meta.append(dict(fn=fn, obl=obl, mustfail=mustfail))

    def add_obl(self, oid, props, fn=None, kind='clause', text=''):
        if oid in self.obls:
            raise Undecided('duplicate obligation id ' + oid)
        self.obls[oid] = Obl(oid, props, fn, kind, text)
        return oid

    def emit_marked(self, text, fn, fnname, default_kind):
        """Emit contract text containing //# markers; lines after a marker
        belong to that obligation until the next marker / blank marker `//#`."""
        cur = None
        for ln in text.split('\n'):
            mm = re.match(r'\s*//#\s*([A-Za-z0-9_\-\.]+)\s*:\s*(.*)$', ln)
            if mm:
                label, props = mm.group(1), mm.group(2).split()
                cur = self.add_obl('%s.%s/%s' % (self.name, fnname, label), props, fn=fnname, kind=default_kind)
                self.emit(ln, fn=fnname, obl=cur)
                continue
            if re.match(r'\s*//#\s*$', ln):
                cur = None
                self.emit(ln, fn=fnname)
                continue
            if cur and ln.strip():
                self.obls[cur].text += ln.strip() + ' '
            self.emit(ln, fn=fnname, obl=cur)

    # -- rewriting --------------------------------------------------------
    @staticmethod
    def _bytestr(m):
        raw = m.group(2)
        val = bytes(raw, 'utf-8').decode('unicode_escape').encode('latin-1')
        if len(val) != int(m.group(1)):
            raise Undecided('byte string literal length mismatch')
        return '[u8; %s] = [%s]' % (m.group(1), ', '.join('%du8' % b for b in val))

    def apply_rules(self, text, rec, subs):
        # R19: byte-string constant -> array of its bytes (computed here)
        text, n = re.subn(r'&\[u8; (\d+)\] = b"((?:[^"\\]|\\.)*)"', self._bytestr, text)
        if n:
            rec.rewrites.append(dict(rule='R19', what='byte-string literal -> byte array', count=n))
        for rule, rx, repl, note in GLOBAL_RULES:
            text, n = re.subn(rx, repl, text)
            if n:
                rec.rewrites.append(dict(rule=rule, what=note, count=n))
        text, n = rewrite_let_chains(text)
        if n:
            rec.rewrites.append(dict(rule='R8', what='let-chain -> nested if', count=n))
        for rule, rx, repl in self.gsubs:
            text, n = re.subn(rx, repl, text)
            if n:
                rec.rewrites.append(dict(rule=rule, what='unit: %s => %s' % (rx, repl), count=n))
        for rule, rx, repl, optional in subs:
            try:
                text, n = re.subn(rx, repl, text)
            except re.error as e:
                raise Undecided('bad regex %s: %s' % (rx, e))
            if n == 0 and not optional:
                raise Undecided('anchor lost in %s: rule %s `%s` no longer matches' % (rec.name, rule, rx))
            if n:
                rec.rewrites.append(dict(rule=rule, what='%s => %s' % (rx, repl), count=n))
        return text

    # -- template processing ------------------------------------------------
    @staticmethod
    def load_lines(path, seen=None):
        """Template lines with `//@ include <relpath>` expanded (relative to units/)."""
        seen = seen or set()
        if path in seen:
            raise Undecided('include cycle: ' + path)
        seen.add(path)
        out = []
        for ln in open(path).read().split('\n'):
            m = re.match(r'\s*//@\s*include\s+(\S+)', ln)
            if m:
                out += Unit.load_lines(os.path.join(VERIF, 'units', m.group(1)), seen)
            else:
                out.append(ln)
        return out

    def assemble(self):
        tpl = self.load_lines(self.path)
        i = 0
        cur_file = None
        mustfail = None
        raw_obl = None
        while i < len(tpl):
            ln = tpl[i]
            d = re.match(r'\s*//@\s*(\S+)\s*(.*)$', ln)
            if not d:
                mf = re.match(r'\s*//#!\s*(mustfail|end)\s*(\S*)', ln)
                if mf:
                    if mf.group(1) == 'mustfail':
                        mustfail = mf.group(2)
                        self.mustfail[mustfail] = False
                    else:
                        mustfail = None
                    self.emit(ln)
                    i += 1
                    continue
                mm = re.match(r'\s*//#\s*([A-Za-z0-9_\-\.]+)\s*:\s*(.*)$', ln)
                if mm:
                    raw_obl = self.add_obl('%s.%s' % (self.name, mm.group(1)), mm.group(2).split(), kind='lemma')
                    self.emit(ln, obl=raw_obl)
                    i += 1
                    continue
                if re.match(r'\s*//#\s*$', ln):
                    raw_obl = None
                if raw_obl and ln.strip():
                    self.obls[raw_obl].text += ln.strip() + ' '
                self.emit(ln, obl=raw_obl, mustfail=mustfail)
                i += 1
                continue
            raw_obl = None
            cmd, arg = d.group(1), d.group(2).strip()
            if cmd == 'unit':
                self.name = arg
            elif cmd == 'file':
                cur_file = arg
            elif cmd == 'gsub':
                rule, rest = arg.split(None, 1)
                rx, repl = parse_bt(rest)
                self.gsubs.append((rule, rx, repl))
            elif cmd == 'usefn':
                self.do_usefn(arg, cur_file)
            elif cmd in ('struct', 'enum', 'const', 'fn', 'block'):
                j = i + 1
                block = []
                while j < len(tpl) and not re.match(r'\s*//@\s*end\s*$', tpl[j]):
                    block.append(tpl[j])
                    j += 1
                if j >= len(tpl):
                    raise Undecided('template %s: missing //@ end after line %d' % (self.path, i + 1))
                if cmd == 'fn':
                    self.do_fn(arg, block, cur_file, mustfail)
                else:
                    self.do_item(cmd, arg, block, cur_file)
                i = j
            else:
                raise Undecided('template %s:%d unknown directive %s' % (self.path, i + 1, cmd))
            i += 1
        return '\n'.join(self.lines) + '\n'

    def do_usefn(self, arg, cur_file):
        """`//@ usefn <unit> <Type::fn>`: emit the function as an external_body stub
        carrying exactly the contract under which <unit> verifies its real body."""
        uname, fname = arg.split()[:2]
        other = os.path.join(VERIF, 'units', uname + '.vx')
        lines = self.load_lines(other)
        file_ = None
        i = 0
        found = None
        while i < len(lines):
            d = re.match(r'\s*//@\s*(\S+)\s*(.*)$', lines[i])
            if d and d.group(1) == 'file':
                file_ = d.group(2).strip()
            if d and d.group(1) == 'fn':
                nm, opts = self.parse_opts(d.group(2).strip())
                shown = (nm.rsplit('::', 1)[0] + '::' if '::' in nm else '') + opts.get('as', nm.rsplit('::', 1)[-1])
                j = i + 1
                block = []
                while not re.match(r'\s*//@\s*end\s*$', lines[j]):
                    block.append(lines[j])
                    j += 1
                if shown == fname:
                    found = (d.group(2).strip(), block, opts.get('file', file_))
                    break
                i = j
            i += 1
        if not found:
            raise Undecided('usefn: %s not found in unit %s' % (fname, uname))
        self.do_fn(found[0], found[1], found[2], None, stub_from=uname)

    @staticmethod
    def parse_opts(arg):
        toks = re.findall(r'(\w+)=(`[^`]*`|\S+)', arg)
        opts = {k: v.strip('`') for k, v in toks}
        name = arg.split()[0]
        return name, opts

    def do_item(self, kind, arg, block, cur_file):
        name, opts = self.parse_opts(arg)
        rel = opts.get('file', cur_file)
        s = self.src(rel)
        try:
            a, b = s.find_item(kind, name)
        except ScanError as e:
            raise Undecided('anchor lost: %s' % e)
        rec = FnRec()
        rec.name = '%s %s' % (kind, name)
        rec.file = rel
        rec.src_line = line_of(s.text, a)
        rec.orig = s.text[a:b]
        subs = []
        attrs = []
        for ln in block:
            d = re.match(r'\s*//@\s*(sub\??)\s+(\S+)\s+(.*)$', ln)
            if d:
                rx, repl = parse_bt(d.group(3))
                subs.append((d.group(2), rx, repl, d.group(1) == 'sub?'))
            d = re.match(r'\s*//@\s*attr\s+(.*)$', ln)
            if d:
                attrs.append(d.group(1))
        text = self.apply_rules(rec.orig, rec, subs)
        rec.final = text
        self.finish_rec(rec)
        self.emit('// ---- extracted %s from %s:%d" ----' % (rec.name, rel, rec.src_line))
        for a in attrs:
            self.emit(a)
        self.emit(text, fn=rec.name)

    def finish_rec(self, rec):
        norm = re.sub(r'\s+', ' ', rec.final).strip()
        rec.fingerprint = hashlib.sha256(norm.encode()).hexdigest()[:16]
        o = [l.strip() for l in rec.orig.split('\n') if l.strip()]
        f = [l.strip() for l in rec.final.split('\n') if l.strip()]
        sm = difflib.SequenceMatcher(a=o, b=f, autojunk=False)
        same = sum(bl.size for bl in sm.get_matching_blocks())
        rec.stats = dict(lines_source=len(o), lines_verbatim=same, lines_rewritten_or_dropped=len(o) - same,
                         lines_generated=len(f))
        self.fns.append(rec)

    def scope_end(self, body, rx, stmt, rec, rule):
        """R13'': a value bound by the statement matching `rx` lives until the end of the innermost block that encloses
        that statement (Rust drop scope -- not until its last use).  That block `{ B }` becomes
        `{ let vscopeK = { B }; STMT vscopeK }`, so that STMT (the explicit end of the value's life, e.g. the release of a
        strong reference) runs exactly where Rust would drop the value when the block is left normally."""
        bm = mask(body)
        m = re.search(rx, bm)
        if not m:
            raise Undecided('anchor lost in %s: scope anchor `%s` not found' % (rec.name, rx))
        if 'b' in m.groupdict() and m.group('b') == '_':
            # `let _ = EXPR;` does not bind: the value is dropped at the end of this very statement
            j, d = m.end(), 0
            while j < len(bm) and not (bm[j] == ';' and d == 0):
                d += bm[j] in '([{'
                d -= bm[j] in ')]}'
                j += 1
            body = body[:j + 1] + ' ' + stmt + body[j + 1:]
            rec.rewrites.append(dict(rule=rule, what='`let _ = ..` drops its value at once: `%s` right after the statement `%s`' % (stmt, rx), count=1))
            return body
        # innermost enclosing '{'
        depth, i = 0, m.start()
        while i >= 0:
            c = bm[i]
            if c == '}':
                depth += 1
            elif c == '{':
                if depth == 0:
                    break
                depth -= 1
            i -= 1
        if i < 0:
            raise Undecided('%s: no enclosing block for scope anchor' % rec.name)
        j = match_close(bm, i)
        k = len([r for r in rec.rewrites if r['rule'] == rule and 'scope' in r['what']])
        body = body[:i] + '{ let vscope%d = ' % k + body[i:j + 1] + '; ' + stmt + ' vscope%d }' % k + body[j + 1:]
        rec.rewrites.append(dict(rule=rule, what='end of drop scope made explicit: `%s` at the end of the block enclosing `%s`' % (stmt, rx), count=1))
        return body

    def expand_select(self, body, rec, optional=False):
        """R23: `tokio::select! { [biased;] PAT = FUT [, if COND] => HANDLER, .. }` -> a nondeterministic choice among the
        enabled branches: `{ let vsel = vselect(); if vsel == 0 [&& COND] { let PAT = FUT; HANDLER } else if .. else { vselect_none() } }`.
        Which branch completes first is the scheduler's business, so every enabled branch may run; `biased` only orders
        polling.  A branch with a refutable pattern whose future completes with a value that does not match is DISABLED and
        the others go on (tokio semantics); since a branch can be disabled at most once the expansion is unrolled:
        `match FUT { PAT => HANDLER, _ => <the select without this branch> }`; when every branch is disabled the `else`
        branch runs, and without one tokio panics ("all branches are disabled and there is no else branch") -> `vpanic()`,
        an obligation of the function."""
        n = 0
        while True:
            bm = mask(body)
            mt = re.search(r'(?:tokio|::remoc::rtc)::select!\s*\{', bm)
            if not mt:
                break
            bo = mt.end() - 1
            bc = match_close(bm, bo)
            inner, im = body[bo + 1:bc], bm[bo + 1:bc]
            mb = re.match(r'\s*biased\s*;', im)
            if mb:
                inner, im = inner[mb.end():], im[mb.end():]
            arms, pos = [], 0
            else_handler = None
            while im[pos:].strip():
                ma = re.compile(r'=>').search(im, pos)
                if not ma:
                    raise Undecided('%s: cannot parse select! arm' % rec.name)
                head = inner[pos:ma.start()]
                hm = im[pos:ma.start()]
                if hm.strip() == 'else' or re.sub(r'//[^\n]*', '', head).strip() == 'else':
                    j = ma.end()
                    while im[j] in ' \t\n':
                        j += 1
                    if im[j] == '{':
                        he = match_close(im, j) + 1
                        else_handler = inner[j:he]
                    else:
                        k = j
                        d = 0
                        while k < len(im) and not (im[k] == ',' and d == 0):
                            d += im[k] in '([{'
                            d -= im[k] in ')]}'
                            k += 1
                        he = k
                        else_handler = '{ ' + inner[j:he] + ' }'
                    pos = he
                    mc = re.match(r'\s*,', im[pos:])
                    if mc:
                        pos += mc.end()
                    continue
                eq = hm.index('=')
                pat = re.sub(r'//[^\n]*', '', head[:eq]).strip()
                fut = re.sub(r',\s*if\s+', ', if ', head[eq + 1:].strip())
                cond = None
                parts = _split_top(fut, mask(fut), ', if ')
                if len(parts) == 2:
                    fut, cond = parts[0].strip(), parts[1].strip()
                refutable = not re.fullmatch(r'(mut\s+)?[a-z_]\w*|\(\s*\)|\((\s*(mut\s+)?[a-z_]\w*\s*,?)+\)', pat)
                j = ma.end()
                while im[j] in ' \t\n':
                    j += 1
                if im[j] == '{':
                    he = match_close(im, j) + 1
                    handler = inner[j:he]
                else:
                    k = j
                    d = 0
                    while k < len(im) and not (im[k] == ',' and d == 0):
                        d += im[k] in '([{'
                        d -= im[k] in ')]}'
                        k += 1
                    he = k
                    handler = '{ ' + inner[j:he] + ' }'
                arms.append((pat, fut, cond, handler, refutable))
                pos = he
                mc = re.match(r'\s*,', im[pos:])
                if mc:
                    pos += mc.end()
            def gen(disabled):
                live = [i for i in range(len(arms)) if i not in disabled]
                if not [i for i in live if True]:
                    return else_handler if else_handler is not None else '{ vpanic() }'
                o = '{ let vsel = vselect();\n'
                first = True
                for i in live:
                    pat, fut, cond, handler, refutable = arms[i]
                    c = (' && (%s)' % cond) if cond else ''
                    if refutable:
                        o += ' %sif vsel == %d%s { match %s { %s => %s, _ => %s } }\n' % ('' if first else 'else ', i, c, fut, pat, handler, gen(disabled | {i}))
                    else:
                        o += ' %sif vsel == %d%s { let %s = %s; %s }\n' % ('' if first else 'else ', i, c, pat, fut, handler)
                    first = False
                # every live branch pending forever (or disabled by its precondition): the select does not complete
                o += ' else { vselect_none() } }'
                return o
            if len([a for a in arms if a[4]]) > 3:
                raise Undecided('%s: select! with more than three refutable patterns is outside R23' % rec.name)
            out = gen(frozenset())
            body = body[:mt.start()] + out + body[bc + 1:]
            n += 1
        if n == 0 and optional:
            return body
        if n == 0:
            raise Undecided('anchor lost in %s: no tokio::select! to expand' % rec.name)
        rec.rewrites.append(dict(rule='R23', what='select! expanded into a nondeterministic choice among its enabled branches', count=n))
        return body

    def expand_retain(self, body, rec):
        """R22: `RECV.retain(|PAT| { BODY });` -> the loop std documents for Vec/VecDeque::retain ("visits each element
        exactly once in the original order", keeps those for which the closure returns true), with the closure body
        inlined verbatim.  The helpers vretain_take / vretain_at / vretain_keep are the unit's assumed std contracts."""
        n = 0
        while True:
            bm = mask(body)
            mt = re.search(r'([A-Za-z_][\w\.]*)\.retain\(\|([^|]*)\|\s*', bm)
            if not mt:
                break
            po = bm.index('(', mt.end(1))
            pc = match_close(bm, po)
            if bm[mt.end()] == '{':
                bo = mt.end()
                bc = match_close(bm, bo)
                if bm[bc + 1:pc].strip():
                    raise Undecided('%s: retain closure body is not a single block' % rec.name)
            else:
                # expression closure `|x| EXPR`: the expression runs to the closing parenthesis of retain(
                bo, bc = mt.end(), pc - 1
            tail = re.match(r'\s*;', bm[pc + 1:])
            if not tail:
                raise Undecided('%s: retain call not in statement position' % rec.name)
            recv, pat = body[mt.start(1):mt.end(1)], body[mt.start(2):mt.end(2)].strip()
            k = n + 1
            exp = ('let vold{k} = vretain_take(&mut {r});\n let mut vi{k}: usize = 0;\n while vi{k} < vretain_len(&vold{k})\n {{\n'
                   ' let {p} = vretain_at(&vold{k}, vi{k});\n let vkeep{k} = {{ {b} }};\n /*VXRETAIN-STEP{k}*/\n'
                   ' if vkeep{k} {{ vretain_keep(&mut {r}, &vold{k}, vi{k}); }}\n vi{k} += 1;\n }}\n').format(k=k, r=recv, p=pat, b=body[bo:bc + 1])
            body = body[:mt.start()] + exp + body[pc + 1 + tail.end():]
            n += 1
        if n == 0:
            raise Undecided('anchor lost in %s: no `.retain(|..| {..});` call to expand' % rec.name)
        rec.rewrites.append(dict(rule='R22', what='retain(closure) expanded into the documented element loop, closure body inlined', count=n))
        return body

    def do_fn(self, arg, block, cur_file, mustfail, stub_from=None):
        name, opts = self.parse_opts(arg)
        rel = opts.get('file', cur_file)
        s = self.src(rel)
        if '::' in name:
            ty, fn = name.rsplit('::', 1)
        else:
            ty, fn = None, name
        try:
            if 'block' in opts:
                # R12 block extraction: the brace block following the anchor regex, lifted into a function
                mm = re.search(opts['block'], s.text)
                if not mm:
                    raise ScanError('block anchor `%s` not found in %s' % (opts['block'], rel))
                if 'until' in opts:
                    # statement span: from the anchor up to the `until` anchor, wrapped into a block
                    mu = re.compile(opts['until']).search(s.text, mm.end())
                    if not mu:
                        raise ScanError('span end `%s` not found in %s' % (opts['until'], rel))
                    loc = dict(header=None, start=mm.end(), fn_kw=mm.start(), body_open=mm.end(), body_close=mu.start() - 1, span=True)
                else:
                    bo = s.m.index('{', mm.end())
                    if s.m[mm.end():bo].strip():
                        raise ScanError('block anchor `%s`: no block directly after the anchor' % opts['block'])
                    loc = dict(header=None, start=bo, fn_kw=mm.start(), body_open=bo, body_close=match_close(s.m, bo))
            else:
                try:
                    loc = s.find_fn(ty, fn, impl_re=opts.get('impl'), nth=int(opts['nth']) if 'nth' in opts else None)
                except ScanError:
                    # R26: Rust method resolution -- an impl that does not define a method gets the trait's provided
                    # (default) method; `trait=<Name>` names the trait whose impl for `ty` is being looked at
                    if 'trait' not in opts:
                        raise
                    loc = s.find_trait_default(opts['trait'], fn)
                    resolved_default = True
        except (ScanError, ValueError) as e:
            raise Undecided('anchor lost: %s' % e)
        rec = FnRec()
        if locals().get('resolved_default'):
            rec.rewrites.append(dict(rule='R26', what='method not defined in the impl: resolved to the provided method of trait %s (Rust method resolution)' % opts['trait'], count=1))
        emitted_name = opts.get('as', fn)
        rec.name = opts.get('id', (ty + '::' if ty else '') + emitted_name)
        rec.file = rel
        rec.src_line = line_of(s.text, loc['fn_kw'])
        rec.orig = s.text[loc['start']:loc['body_close'] + 1]
        # parse block
        props, implhdr, ret, sig, addparam = [], None, None, None, None
        attrs = []
        awaits = None
        sigsubs = []
        subs = []
        expandretain = False
        expandselect = False
        scopeends = []
        sections = []  # (kind, arg, lines)
        cur = None
        for ln in block:
            d = re.match(r'\s*//@\s*(\S+)\s*(.*)$', ln)
            if d:
                c, a = d.group(1), d.group(2).strip()
                if c == 'props':
                    props = a.split()
                elif c == 'implhdr':
                    implhdr = a
                elif c == 'attr':
                    attrs.append(a)
                elif c == 'awaits':
                    awaits = int(a.split()[0])
                elif c == 'ret':
                    ret = a
                elif c == 'sig':
                    sig = a
                elif c == 'addparam':
                    addparam = a
                elif c == 'expandretain':
                    expandretain = True
                elif c == 'expandselect':
                    expandselect = True
                elif c == 'expandselect?':
                    expandselect = 'optional'
                elif c == 'scopeend':
                    rule, rest = a.split(None, 1)
                    rx, repl = parse_bt(rest)
                    scopeends.append((rule, rx, repl))
                elif c in ('sub', 'sub?'):
                    rule, rest = a.split(None, 1)
                    rx, repl = parse_bt(rest)
                    subs.append((rule, rx, repl, c == 'sub?'))
                elif c == 'sigsub':
                    rule, rest = a.split(None, 1)
                    rx, repl = parse_bt(rest)
                    sigsubs.append((rule, rx, repl, False))
                elif c in ('spec', 'loop', 'loop?', 'before', 'after', 'before?', 'after?', 'bodystart', 'cancelall'):
                    cur = (c, a, [])
                    sections.append(cur)
                else:
                    raise Undecided('unknown fn directive ' + c)
            elif cur is not None:
                cur[2].append(ln)
        rec.props = props
        # split signature / body
        sig_text = s.text[loc['start']:loc['body_open']]
        body_text = s.text[loc['body_open']:loc['body_close'] + 1]
        if loc.get('span'):
            body_text = '{\n' + body_text + '\n}'
        if 'prefix' in opts:
            # the block is a struct-literal body: re-attach the type name and make it the function's value
            body_text = '{ ' + opts['prefix'] + ' ' + body_text + ' }'
        sig_new = self.apply_rules(sig_text, rec, sigsubs)
        if emitted_name != fn:
            sig_new = re.sub(r'\bfn\s+%s\b' % re.escape(fn), 'fn ' + emitted_name, sig_new, count=1)
            rec.rewrites.append(dict(rule='R13', what='fn renamed %s -> %s' % (fn, emitted_name), count=1))
        if sig is not None:
            rec.rewrites.append(dict(rule='SIG', what='signature `%s` replaced by `%s`' % (re.sub(r'\s+', ' ', sig_new).strip(), sig), count=1))
            sig_new = sig
        else:
            if addparam:
                mm = mask(sig_new)
                po = mm.index('(')
                pc = match_close(mm, po)
                inner = sig_new[po + 1:pc].rstrip()
                sep = '' if inner.strip() == '' or inner.rstrip().endswith(',') else ', '
                sig_new = sig_new[:po + 1] + inner + sep + addparam + sig_new[pc:]
                rec.rewrites.append(dict(rule='R14', what='extra parameter `%s`' % addparam, count=1))
            if ret:
                mm = mask(sig_new)
                po = mm.index('(')
                pc = match_close(mm, po)
                tail = sig_new[pc + 1:]
                m2 = re.match(r'\s*->\s*(.*?)\s*(where\b.*)?$', tail, re.S)
                if m2:
                    sig_new = sig_new[:pc + 1] + ' -> (%s: %s) %s' % (ret, m2.group(1).strip(), m2.group(2) or '')
                    rec.rewrites.append(dict(rule='RET', what='return value named `%s`' % ret, count=1))
        if any(k == 'cancelall' for k, _, _ in sections):
            # R3 applied mechanically: a cancel point before every statement that contains an await
            bm0 = mask(body_text)
            starts = set()
            for mt in re.finditer(r'\.await\b', bm0):
                j = mt.start()
                while j > 0 and bm0[j - 1] not in ';{}':
                    j -= 1
                while bm0[j] in ' \t\n':
                    j += 1
                starts.add(j)
            for j in sorted(starts, reverse=True):
                body_text = body_text[:j] + '/*VXCANCEL*/' + body_text[j:]
            rec.rewrites.append(dict(rule='R3', what='cancel point before every awaiting statement', count=len(starts)))
        if expandselect:
            body_text = self.expand_select(body_text, rec, optional=(expandselect == 'optional'))
        for rule, rx, stmt in scopeends:
            body_text = self.scope_end(body_text, rx, stmt, rec, rule)
        if expandretain:
            body_text = self.expand_retain(body_text, rec)
        body_new = self.apply_rules(body_text, rec, subs)
        # loops / inserts operate on the rewritten body
        inserts = []  # (pos, text_lines, kind, label)
        bm = mask(body_new)
        lp = loops_in(bm)
        spec_lines = []
        for kind, a, lines in sections:
            if kind == 'spec':
                spec_lines = lines
            elif kind in ('loop', 'loop?'):
                ml = re.match(r'`([^`]*)`', a)
                if ml:
                    # loop identified by a regex on its header (keyword .. '{')
                    hits = [l for l in lp if re.search(ml.group(1), body_new[l[0]:l[1]])]
                    if len(hits) != 1:
                        if kind == 'loop?' and not hits:
                            continue
                        raise Undecided('anchor lost in %s: loop `%s` matches %d loops' % (rec.name, ml.group(1), len(hits)))
                    inserts.append((hits[0][1], lines, 'loop'))
                else:
                    k = int(a)
                    if k < 1 or k > len(lp):
                        if kind == 'loop?':
                            continue
                        raise Undecided('anchor lost in %s: loop #%d not found (%d loops)' % (rec.name, k, len(lp)))
                    inserts.append((lp[k - 1][1], lines, 'loop%d' % k))
            elif kind == 'bodystart':
                inserts.append((1, lines, 'bodystart'))
            elif kind == 'cancelall':
                for k, mt in enumerate(re.finditer(r'/\*VXCANCEL\*/', body_new)):
                    inserts.append((mt.start(), [l.replace('{k}', str(k + 1)) for l in lines], 'cancel'))
            else:
                mm = re.match(r'`([^`]*)`\s*(?:#(\d+))?', a)
                if not mm:
                    raise Undecided('bad anchor in %s: %s' % (rec.name, a))
                rx, nth = mm.group(1), int(mm.group(2) or 1)
                ms = list(re.finditer(rx, body_new))
                if len(ms) < nth:
                    if kind.endswith('?'):
                        continue
                    raise Undecided('anchor lost in %s: `%s` #%d not found' % (rec.name, rx, nth))
                pos = ms[nth - 1].start() if kind.startswith('before') else ms[nth - 1].end()
                inserts.append((pos, lines, kind.rstrip('?')))
        fname = rec.name
        hdr = implhdr if implhdr else ('impl %s' % ty if ty else None)
        if stub_from:
            self.emit('// ---- contract of %s, proved against its real body in unit %s ----' % (fname, stub_from))
            if hdr:
                self.emit(hdr + ' {')
            self.emit('#[verifier::external_body]')
            self.emit(sig_new.rstrip())
            self.emit('\n'.join(l for l in spec_lines if not re.match(r'\s*//#', l)))
            self.emit('{ unimplemented!() }')
            if hdr:
                self.emit('}')
            self.imports.append('%s (contract proved in %s)' % (fname, stub_from))
            return
        n_await = len(re.findall(r'\.await\b', mask(body_text)))
        if awaits is not None and awaits != n_await:
            raise Undecided('%s: %d awaits in source but %d declared in the side-car (cancel points not covered)' % (rec.name, n_await, awaits))
        rec.awaits = n_await
        rec.final = sig_new + body_new
        self.finish_rec(rec)
        # ---- emit
        self.emit('// ---- extracted fn %s from %s:%d ----' % (fname, rel, rec.src_line))
        if hdr:
            self.emit(hdr + ' {')
        self.add_obl('%s.%s/safety' % (self.name, fname), props, fn=fname, kind='safety',
                     text='no overflow / out-of-bounds / reachable panic; callee preconditions hold')
        for a in attrs:
            self.emit(a)
        self.emit(sig_new.rstrip(), fn=fname, mustfail=mustfail)
        self.emit_marked('\n'.join(spec_lines), None, fname, 'ensures')
        # fix meta fn for spec lines: emitted with fn=fname inside emit_marked
        # body with inserts
        inserts.sort(key=lambda t: t[0])
        pos = 0
        for p, lines, kind in inserts:
            self.emit(body_new[pos:p], fn=fname, mustfail=mustfail)
            self.emit_marked('\n'.join(lines), None, fname, kind)
            pos = p
        self.emit(body_new[pos:], fn=fname, mustfail=mustfail)
        if hdr:
            self.emit('}')


# ---------------------------------------------------------------------------
# running Verus
# ---------------------------------------------------------------------------
def run_verus(path, rlimit=30, threads=16, extra=(), multiple_errors=8):
    cmd = ['verus', path, '--output-json', '--time', '--rlimit', str(rlimit), '--num-threads', str(threads),
           '--multiple-errors', str(multiple_errors)] + list(extra) + ['--', '--error-format=json']
    t0 = time.time()
    try:
        p = subprocess.run(cmd, capture_output=True, text=True, timeout=900, cwd=os.path.dirname(path))
    except subprocess.TimeoutExpired:
        return dict(cmd=' '.join(cmd), timeout=True, diags=[], summary={}, wall=time.time() - t0, stderr='timeout')
    wall = time.time() - t0
    summary = {}
    try:
        summary = json.loads(p.stdout)
    except Exception:
        pass
    diags = []
    for ln in p.stderr.split('\n'):
        ln = ln.strip()
        if ln.startswith('{'):
            try:
                d = json.loads(ln)
            except Exception:
                continue
            if d.get('$message_type') == 'diagnostic':
                diags.append(d)
    return dict(cmd=' '.join(cmd), timeout=False, diags=diags, summary=summary, wall=wall, stderr=p.stderr,
                rc=p.returncode)


def classify(unit, res):
    """Attribute diagnostics. Returns dict(failed={obl id: [msgs]}, undecided=[reasons])."""
    undecided = []
    failed = {}
    if res.get('timeout'):
        undecided.append('verus timeout')
    for d in res['diags']:
        if d['level'] != 'error':
            continue
        msg = d['message']
        if msg.startswith('aborting due to'):
            continue
        prim = [s for s in d['spans'] if s.get('is_primary')] or d['spans']
        line = prim[0]['line_start'] if prim else None
        meta = unit.meta[line - 1] if line and line - 1 < len(unit.meta) else {}
        if meta.get('mustfail'):
            unit.mustfail[meta['mustfail']] = True
            continue
        if not VERIF_FAIL.search(msg) or d.get('code'):
            if UNDECIDED_MSG.search(msg):
                undecided.append('solver: %s (line %s)' % (msg, line))
            else:
                undecided.append('verus rejected generated text: %s (line %s: %s)' % (
                    msg, line, unit.lines[line - 1].strip() if line else ''))
            continue
        if UNDECIDED_MSG.search(msg) and not VERIF_FAIL.search(msg):
            undecided.append('solver: ' + msg)
            continue
        oid = meta.get('obl')
        if not oid and meta.get('fn'):
            oid = '%s.%s/safety' % (unit.name, meta['fn'])
        if not oid or oid not in unit.obls:
            undecided.append('failure outside any obligation: %s (line %s)' % (msg, line))
            continue
        where = '%s @gen:%s `%s`' % (msg, line, unit.lines[line - 1].strip()[:160])
        for s in d['spans']:
            if not s.get('is_primary') and s.get('label'):
                where += ' | %s @gen:%d `%s`' % (s['label'], s['line_start'], unit.lines[s['line_start'] - 1].strip()[:120])
        failed.setdefault(oid, []).append(where)
    vr = res.get('summary', {}).get('verification-results', {})
    if not vr and not undecided:
        undecided.append('verus produced no result summary: ' + res.get('stderr', '')[-400:])
    if vr and vr.get('encountered-vir-error'):
        if not undecided:
            undecided.append('verus VIR error')
    if vr and not vr.get('success') and not failed and not undecided and not any(unit.mustfail.values()):
        undecided.append('verus failed without attributable diagnostics: ' + res.get('stderr', '')[-400:])
    for name, hit in unit.mustfail.items():
        if not hit and not undecided:
            undecided.append('vacuity probe `%s` unexpectedly verified' % name)
    return dict(failed=failed, undecided=undecided)


def scan_assumptions(text):
    """Every assumed item of the generated file: external_body / assume_specification / uninterp / assume / admit,
    each reported with the signature line it guards."""
    found = []
    lines = text.split('\n')
    for i, ln in enumerate(lines):
        if re.search(r'external_body|assume_specification|\bassume\s*\(|\badmit\s*\(|external_type_specification|uninterp', ln):
            desc = ln.strip()
            j = i + 1
            # attach the item the attribute applies to
            while re.fullmatch(r'(\s*#\[[^\]]*\]\s*)+', desc) and j < len(lines):
                nxt = lines[j].strip()
                if nxt:
                    desc = desc + ' ' + nxt
                j += 1
            found.append((i + 1, re.sub(r'\s+', ' ', desc)))
    return found
