"""Generated sources for the remote-trait (rtc) code.

The code that serves and issues remote trait calls does not exist as source text in the
repository: remoc_macro generates it per trait.  `generate(repo, rel, build)` compiles the
repository's own generator modules (remoc_macro/src/{trait_def,method,util}.rs, included by
#[path] -- not copied, not edited) into a small driver (gen/rtcgen), runs it on the
`#[..::remote]` traits of the repository file `rel` and returns the generated items as text.
That text is what rustc would compile for those traits.

What the driver adds / drops (recorded as assumptions by the units that use it):
  * the ten lines of glue of remoc_macro/src/lib.rs::remote are repeated in the driver
    (proc_macro::TokenStream cannot be used outside a proc-macro crate); `check_glue` refuses
    (undecided) if lib.rs no longer has that shape;
  * the output is formatted by prettyplease; macro bodies (select!) are token-printed, and
    `_respace` only removes blanks that the token printer inserts (`. await`, `& mut x`).
The result depends on the sample trait: contracts proved on it hold for the code generated for
*that* trait; uniformity of the generator over other traits is an assumption.
"""
import hashlib
import os
import re
import subprocess

HERE = os.path.dirname(os.path.abspath(__file__))
GEN = os.path.join(os.path.dirname(HERE), 'gen', 'rtcgen')

GLUE = [r'let mut trait_def = parse_macro_input!\(input as TraitDef\);',
        r'meta::parser\(\|meta\| trait_def\.parse_meta\(meta\)\)',
        r'let vanilla_trait = trait_def\.vanilla_trait\(\);',
        r'let request_enums = trait_def\.request_enums\(\);',
        r'let servers = match trait_def\.servers\(\)',
        r'let client = trait_def\.client\(\);',
        r'#vanilla_trait\s+#request_enums\s+#servers\s+#client']


class GenError(Exception):
    pass


def check_glue(repo):
    p = os.path.join(repo, 'remoc_macro/src/lib.rs')
    if not os.path.exists(p):
        raise GenError('remoc_macro/src/lib.rs missing')
    t = open(p).read()
    pos = 0
    for g in GLUE:
        m = re.compile(g).search(t, pos)
        if not m:
            raise GenError('remoc_macro/src/lib.rs::remote no longer has the shape the generator driver repeats (%s)' % g)
        pos = m.end()
    mods = sorted(re.findall(r'^mod (\w+);', t, re.M))
    if mods != ['method', 'trait_def', 'util']:
        raise GenError('remoc_macro has other modules than method/trait_def/util: %s' % mods)


def _respace(text):
    """inside macro bodies the token printer writes `x . await`, `& mut x`, `& x`; remove those blanks only"""
    out = []
    i = 0
    for m in re.finditer(r'::remoc::rtc::select!\s*\{', text):
        if m.start() < i:
            continue
        depth, j = 1, m.end()
        while j < len(text) and depth:
            c = text[j]
            depth += (c == '{') - (c == '}')
            j += 1
        body = text[m.end():j - 1]
        body = re.sub(r'\s*\.\s*await\b', '.await', body)
        body = re.sub(r'&\s+mut\s+', '&mut ', body)
        body = re.sub(r'&\s+(?=[\w*(])', '&', body)
        body = re.sub(r'\s*\n\s*\.', '.', body)
        body = re.sub(r'\s*\n\s*', ' ', body)
        # one arm per line, for readable anchors:  `PAT = FUT => H`  separated at top-level commas is left as printed
        out.append(text[i:m.end()] + '\n' + body.strip() + '\n')
        i = j - 1
    out.append(text[i:])
    return ''.join(out)


def generate(repo, rel, build, sample_dir=None):
    """`rel` is a repository file, or -- with sample_dir -- a generator input kept under /verif/gen/samples"""
    check_glue(repo)
    src = os.path.join(sample_dir if sample_dir else repo, rel)
    if not os.path.exists(src):
        raise GenError('sample trait file missing: ' + rel)
    work = os.path.join(build, 'rtcgen')
    os.makedirs(os.path.join(work, 'src'), exist_ok=True)
    deps = [os.path.join(repo, 'remoc_macro/src', f) for f in ('method.rs', 'trait_def.rs', 'util.rs')]
    h = hashlib.sha256()
    for p in deps + [src, os.path.join(GEN, 'main.rs.in'), os.path.join(GEN, 'Cargo.toml')]:
        if not os.path.exists(p):
            raise GenError('generator source missing: ' + p)
        h.update(open(p, 'rb').read())
    key = h.hexdigest()[:24]
    cached = os.path.join(work, 'out-%s.rs' % key)
    if os.path.exists(cached):
        return open(cached).read()
    # one generator build at a time per build directory (units run in parallel threads and processes)
    import fcntl
    lock = open(os.path.join(work, '.lock'), 'w')
    fcntl.flock(lock, fcntl.LOCK_EX)
    try:
        if os.path.exists(cached):
            return open(cached).read()
        return _generate_locked(repo, rel, src, work, cached)
    finally:
        fcntl.flock(lock, fcntl.LOCK_UN)
        lock.close()


def _generate_locked(repo, rel, src, work, cached):
    main = open(os.path.join(GEN, 'main.rs.in')).read().replace('@REPO@', os.path.abspath(repo))
    # one crate directory per repo path, so that concurrent runs on different trees do not fight over src/main.rs
    crate = os.path.join(work, 'crate-' + hashlib.sha256(os.path.abspath(repo).encode()).hexdigest()[:10])
    os.makedirs(os.path.join(crate, 'src'), exist_ok=True)
    mp = os.path.join(crate, 'src', 'main.rs')
    if not os.path.exists(mp) or open(mp).read() != main:
        open(mp, 'w').write(main)
    for f in ('Cargo.toml', 'Cargo.lock'):
        open(os.path.join(crate, f), 'w').write(open(os.path.join(GEN, f)).read())
    env = dict(os.environ, CARGO_NET_OFFLINE='true', CARGO_TARGET_DIR=os.path.join(work, 'target'))
    p = subprocess.run(['cargo', 'run', '--offline', '--quiet', '--locked', '--manifest-path', os.path.join(crate, 'Cargo.toml'), '--', src],
                       capture_output=True, text=True, env=env)
    if p.returncode != 0:
        raise GenError('remoc_macro generator did not build/run on %s: %s' % (rel, (p.stderr or p.stdout)[-600:]))
    text = _respace(p.stdout)
    tmp = cached + '.%d.tmp' % os.getpid()
    open(tmp, 'w').write(text)
    os.replace(tmp, cached)
    return text
