#!/usr/bin/env python3
"""Regenerate MANIFEST.json from units/claims.json (level texts) and the unit templates."""
import glob, json, os, re
HERE = os.path.dirname(os.path.dirname(os.path.abspath(__file__)))
claims = json.load(open(os.path.join(HERE, 'units', 'claims.json')))
tags = set()
for p in glob.glob(os.path.join(HERE, 'units', '*.vx')):
    for m in re.finditer(r'//#\s*[\w\-\.]+\s*:\s*(.*)', open(p).read()):
        tags |= set(m.group(1).split())
    for m in re.finditer(r'//@\s*props\s+(.*)', open(p).read()):
        tags |= set(m.group(1).split())
checks, na = [], []
for pid in ['C%02d' % i for i in range(1, 21)]:
    c = claims[pid]
    if c.get('claimed') and pid in tags:
        checks.append(dict(
            property_id=pid,
            quick_cmd='./check %s quick' % pid,
            thorough_cmd='./check %s thorough' % pid,
            evidence_file='evidence/%s.json' % pid,
            replay_cmd_template='cat {path}',
            engine='vx-verus',
            level_claimed=dict(category='proof', text=c['level_text'], design_ref=c.get('design_ref', 'DESIGN.md section 12 (as built; supersedes section 5 where they differ)')),
            level_note=c['level_note'],
            technique=c.get('technique', 'contract-based deductive verification (Verus/Z3) of functions extracted mechanically from /repo on every run'),
        ))
    else:
        na.append(dict(property_id=pid, reason=c['na_reason'] if not c.get('claimed') else 'units for this property are not built yet: ' + c.get('na_reason', '')))
m = dict(
    version=1,
    setup_cmd='true',
    hooks=dict(guard='none', enable='no hooks: Verus reads text extracted from /repo; Kani harnesses are appended to a throw-away copy under cfg(kani)',
               baseline_off_cmd='cd /repo && cargo test --workspace --no-fail-fast --offline', source_commits=[], add_only=True),
    engines=[dict(name='vx-verus', path='check', serves_properties=[c['property_id'] for c in checks],
                  kind_free_text='extract real functions (lib/vx.py), normalise by logged rules, splice contracts from units/*.vx, Verus 0.2026.09.13 / Z3; thorough tier adds Kani 0.68 twins on a scratch copy of the real crate')],
    checks=checks,
    notes='See DESIGN.md. fix: commits in /repo are listed in known_findings.txt as fixed entries.',
    not_applicable=na,
)
json.dump(m, open(os.path.join(HERE, 'MANIFEST.json'), 'w'), indent=1)
print('claimed:', [c['property_id'] for c in checks])
