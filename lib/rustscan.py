"""Minimal Rust source scanner: masks comments/strings, matches braces, locates items.

Used by vx.py to cut real functions out of /repo on every run.  Nothing here
interprets Rust beyond lexical structure (comments, string/char literals,
bracket nesting)."""
import re


class ScanError(Exception):
    pass


def mask(text):
    """Return a string of the same length as `text` in which the *contents* of
    comments, string literals and char literals are replaced by spaces (newlines
    are kept).  Delimiters of string literals are kept as '"' so that a literal
    still occupies a token; comments vanish completely."""
    out = list(text)
    n = len(text)
    i = 0

    def blank(a, b):
        for k in range(a, b):
            if out[k] != '\n':
                out[k] = ' '

    while i < n:
        c = text[i]
        if c == '/' and i + 1 < n and text[i + 1] == '/':
            j = text.find('\n', i)
            if j < 0:
                j = n
            blank(i, j)
            i = j
        elif c == '/' and i + 1 < n and text[i + 1] == '*':
            depth = 1
            j = i + 2
            while j < n and depth > 0:
                if text.startswith('/*', j):
                    depth += 1
                    j += 2
                elif text.startswith('*/', j):
                    depth -= 1
                    j += 2
                else:
                    j += 1
            blank(i, j)
            i = j
        elif c == '"' or (c in 'rb' and re.match(r'(?:b?r#*"|b")', text[i:i + 8]) and (i == 0 or not (text[i - 1].isalnum() or text[i - 1] == '_'))):
            m = re.match(r'(b?r(#*)"|b?")', text[i:])
            if not m:
                i += 1
                continue
            start = i + len(m.group(1))
            if 'r' in m.group(1):
                term = '"' + (m.group(2) or '')
                j = text.find(term, start)
                if j < 0:
                    raise ScanError('unterminated raw string')
                blank(i, j + len(term))
                out[i] = '"'
                out[j + len(term) - 1] = '"'
                i = j + len(term)
            else:
                j = start
                while j < n and text[j] != '"':
                    if text[j] == '\\':
                        j += 1
                    j += 1
                blank(i, j + 1)
                out[i] = '"'
                out[j] = '"'
                i = j + 1
        elif c == "'":
            # char literal or lifetime
            m = re.match(r"'(\\.[^']*|[^\\'])'", text[i:])
            if m:
                blank(i + 1, i + len(m.group(0)) - 1)
                i += len(m.group(0))
            else:
                i += 1
        else:
            i += 1
    return ''.join(out)


OPEN = {'{': '}', '(': ')', '[': ']'}
CLOSE = {v: k for k, v in OPEN.items()}


def match_close(m, i):
    """m: masked text, i: index of an opening bracket. Returns index of its closer."""
    stack = []
    n = len(m)
    j = i
    while j < n:
        c = m[j]
        if c in OPEN:
            stack.append(c)
        elif c in CLOSE:
            if not stack or stack[-1] != CLOSE[c]:
                raise ScanError('unbalanced bracket at %d' % j)
            stack.pop()
            if not stack:
                return j
        j += 1
    raise ScanError('no closing bracket for %d' % i)


def depth_at(m, upto, start=0):
    d = 0
    for c in m[start:upto]:
        if c == '{':
            d += 1
        elif c == '}':
            d -= 1
    return d


def find_body_open(m, i):
    """From index i (at/after `fn`), find the `{` opening the body: first `{` at
    paren/bracket depth 0.  Returns index or raises; a `;` at depth 0 first means
    a declaration without body."""
    d = 0
    j = i
    while j < len(m):
        c = m[j]
        if c in '([':
            d += 1
        elif c in ')]':
            d -= 1
        elif c == '{' and d == 0:
            return j
        elif c == ';' and d == 0:
            raise ScanError('item has no body')
        j += 1
    raise ScanError('no body found')


def line_of(text, idx):
    return text.count('\n', 0, idx) + 1


class Source:
    def __init__(self, path, text):
        self.path = path
        self.text = text
        self.m = mask(text)

    # -- impl blocks -------------------------------------------------------
    def impl_blocks(self):
        """Yield (header_text, body_open_idx, body_close_idx) for top-level and
        mod-nested impl blocks."""
        for mt in re.finditer(r'(?<![A-Za-z0-9_])impl\b', self.m):
            i = mt.start()
            # must start an item: preceded (ignoring ws) by start, '}', ';', ']' (attribute) or 'unsafe'
            k = i - 1
            while k >= 0 and self.m[k] in ' \t\n':
                k -= 1
            if k >= 0 and self.m[k] not in '};]{' and not self.m[:k + 1].endswith('unsafe'):
                continue
            try:
                o = find_body_open(self.m, i)
            except ScanError:
                continue
            c = match_close(self.m, o)
            yield self.text[i:o], o, c

    @staticmethod
    def impl_self_type(header):
        h = re.sub(r'\s+', ' ', header).strip()
        h = re.sub(r'\bwhere\b.*$', '', h).strip()
        h = h[4:].strip()  # drop 'impl'
        if h.startswith('<'):
            d = 0
            for idx, ch in enumerate(h):
                if ch == '<':
                    d += 1
                elif ch == '>':
                    d -= 1
                    if d == 0:
                        h = h[idx + 1:].strip()
                        break
        trait = None
        # split on top-level ' for '
        d = 0
        pos = None
        for idx in range(len(h)):
            ch = h[idx]
            if ch == '<':
                d += 1
            elif ch == '>':
                d -= 1
            elif d == 0 and h.startswith(' for ', idx):
                pos = idx
                break
        if pos is not None:
            trait = h[:pos].strip()
            h = h[pos + 5:].strip()
        m = re.match(r'[&\s]*(?:mut\s+)?((?:[A-Za-z_][A-Za-z0-9_]*::)*)([A-Za-z_][A-Za-z0-9_]*)', h)
        return (m.group(2) if m else None), trait, h

    def find_fn(self, type_name, fn_name, impl_re=None, nth=None):
        """Locate `fn fn_name` in an impl of `type_name` (or free fn if type_name
        is None).  Returns dict(start, sig_start, body_open, body_close, header)."""
        cands = []
        if type_name is None:
            for mt in re.finditer(r'\bfn\s+%s\b' % re.escape(fn_name), self.m):
                if depth_at(self.m, mt.start()) == 0:
                    cands.append((None, mt.start()))
        else:
            for header, o, c in self.impl_blocks():
                st, trait, _ = self.impl_self_type(header)
                if st != type_name:
                    continue
                if impl_re and not re.search(impl_re, re.sub(r'\s+', ' ', header)):
                    continue
                for mt in re.finditer(r'\bfn\s+%s\b' % re.escape(fn_name), self.m[o:c]):
                    pos = o + mt.start()
                    if depth_at(self.m, pos, o) == 1:
                        cands.append((header, pos))
        if nth is not None:
            if nth - 1 >= len(cands):
                raise ScanError('fn %s::%s #%d not found in %s' % (type_name, fn_name, nth, self.path))
            cands = [cands[nth - 1]]
        if len(cands) != 1:
            raise ScanError('fn %s::%s: %d candidates in %s' % (type_name, fn_name, len(cands), self.path))
        header, pos = cands[0]
        o = find_body_open(self.m, pos)
        c = match_close(self.m, o)
        # qualifiers before fn
        q = pos
        while True:
            mm = re.search(r'(pub(\s*\([^)]*\))?|async|const|unsafe)\s*$', self.m[:q])
            if not mm:
                break
            q = mm.start()
        return dict(header=header, start=q, fn_kw=pos, body_open=o, body_close=c)

    def find_trait_default(self, trait_name, fn_name):
        """The provided (default) method `fn_name` of `trait trait_name { .. }` -- what Rust's method resolution uses for an
        impl that does not define the method itself."""
        for mt in re.finditer(r'\btrait\s+%s\b' % re.escape(trait_name), self.m):
            o = self.m.index('{', mt.end())
            c = match_close(self.m, o)
            for mf in re.finditer(r'\bfn\s+%s\b' % re.escape(fn_name), self.m[o:c]):
                pos = o + mf.start()
                if depth_at(self.m, pos, o) != 1:
                    continue
                # a provided method has a body before the next ';' at this depth
                j = pos
                d = 0
                while j < c:
                    ch = self.m[j]
                    if ch in '(<[':
                        d += 1
                    elif ch in ')>]':
                        d -= 1
                    elif ch == ';' and d <= 0:
                        raise ScanError('trait %s: method %s has no default body' % (trait_name, fn_name))
                    elif ch == '{':
                        break
                    j += 1
                bo = j
                bc = match_close(self.m, bo)
                return dict(header='trait ' + trait_name, start=pos, fn_kw=pos, body_open=bo, body_close=bc)
        raise ScanError('trait %s / default method %s not found in %s' % (trait_name, fn_name, self.path))

    def find_item(self, kind, name):
        """struct / enum / const / static / type item at any depth."""
        if kind in ('struct', 'enum'):
            for mt in re.finditer(r'\b%s\s+%s\b' % (kind, re.escape(name)), self.m):
                i = mt.start()
                # find first of '{', ';', '(' at depth 0
                j = mt.end()
                while j < len(self.m) and self.m[j] not in '{;(':
                    j += 1
                if self.m[j] == '{':
                    c = match_close(self.m, j)
                    return i, c + 1
                if self.m[j] == '(':
                    c = match_close(self.m, j)
                    k = self.m.find(';', c)
                    return i, k + 1
                return i, j + 1
            raise ScanError('%s %s not found in %s' % (kind, name, self.path))
        if kind == 'const':
            for mt in re.finditer(r'\bconst\s+%s\s*:' % re.escape(name), self.m):
                i = mt.start()
                # end at ';' at bracket depth 0
                d = 0
                j = mt.end()
                while j < len(self.m):
                    ch = self.m[j]
                    if ch in OPEN:
                        d += 1
                    elif ch in CLOSE:
                        d -= 1
                    elif ch == ';' and d == 0:
                        return i, j + 1
                    j += 1
            raise ScanError('const %s not found in %s' % (name, self.path))
        raise ScanError('unknown item kind ' + kind)


def loops_in(body_mask):
    """Indices (start of keyword, index of body '{') of loops in a function body,
    in source order."""
    res = []
    for mt in re.finditer(r'(?<![A-Za-z0-9_\'])(loop|while|for)\b', body_mask):
        kw = mt.group(1)
        if kw == 'for':
            # exclude `for<'a>` HRTB and `impl X for Y`
            rest = body_mask[mt.end():mt.end() + 2]
            if rest.lstrip().startswith('<'):
                continue
        try:
            o = find_body_open(body_mask, mt.end())
        except ScanError:
            continue
        res.append((mt.start(), o, kw))
    return res
