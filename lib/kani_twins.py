"""Kani twins: harnesses on the real crate (thorough tier). Filled in later."""


def run_for(prop, verbose=False):
    return []
