"""Kani twins (thorough tier): harnesses compiled into a scratch copy of the real crate under cfg(kani).

A twin re-checks, on the real compiled function and over the full machine domain (or a stated bound),
an obligation that the Verus unit proves on the extracted text; when it fails it supplies the
counterexample for the replay file."""
import json
import os
import re
import shutil
import subprocess
import tempfile
import time

VERIF = os.path.dirname(os.path.dirname(os.path.abspath(__file__)))
REPO = os.environ.get('VERIF_REPO', '/repo')


def _run(cmd, cwd, timeout):
    env = dict(os.environ, CARGO_NET_OFFLINE='true')
    try:
        p = subprocess.run(cmd, cwd=cwd, env=env, capture_output=True, text=True, timeout=timeout)
        return p.returncode, p.stdout + p.stderr
    except subprocess.TimeoutExpired as e:
        subprocess.run(['pkill', '-x', 'cbmc'])
        return 124, (e.stdout or '') if isinstance(e.stdout, str) else ''


def run_for(prop, verbose=False):
    cfg = json.load(open(os.path.join(VERIF, 'kani', 'twins.json')))
    wanted = [(g, h) for g in cfg for h in g['harnesses'] if prop in h['props'] or prop == 'all']
    if not wanted:
        return []
    scratch = tempfile.mkdtemp(prefix='vx-kani-', dir='/tmp')
    res = []
    try:
        subprocess.run(['rsync', '-a', '--exclude', 'target', '--exclude', '.git', REPO + '/', scratch + '/'], check=True)
        for g in cfg:
            if any(g is gg for gg, _ in wanted):
                with open(os.path.join(scratch, g['append_to']), 'a') as fh:
                    fh.write('\n#[cfg(kani)]\nmod verif_kani { include!("%s"); }\n' % os.path.join(VERIF, 'kani', g['include']))
        cmd = ['cargo', 'kani', '-p', 'remoc', '--output-format', 'terse']
        for _, h in wanted:
            cmd += ['--harness', h['name']]
        t0 = time.time()
        rc, out = _run(cmd, scratch, 1500)
        dt = time.time() - t0
        for g, h in wanted:
            m = re.search(r'Checking harness [\w:]*%s\.\.\.(.*?)(?=Checking harness|Complete -|\Z)' % re.escape(h['name']), out, re.S)
            seg = m.group(1) if m else ''
            tm = re.search(r'Verification Time: ([0-9.]+)s', seg)
            r = dict(harness=h['name'], obligation=h['obligation'], bounded=h['bounded'], seconds=float(tm.group(1)) if tm else None)
            if 'VERIFICATION:- SUCCESSFUL' in seg:
                r.update(status='ok', detail='')
            elif 'VERIFICATION:- FAILED' in seg:
                fails = '\n'.join(l for l in seg.split('\n') if 'Failed Checks' in l or 'File:' in l)[:2000]
                # counterexample via concrete playback
                rc2, out2 = _run(['cargo', 'kani', '-p', 'remoc', '--harness', h['name'], '-Z', 'concrete-playback',
                                  '--concrete-playback=print', '--output-format', 'terse'], scratch, 600)
                cx = re.search(r'(Concrete playback unit test.*?```.*?```)', out2, re.S)
                r.update(status='failed', detail=fails + '\n' + (cx.group(1) if cx else '(no concrete playback produced)'))
            else:
                r.update(status='undecided', detail=('timeout' if rc == 124 else 'no verdict found; rc=%s; tail: %s' % (rc, out[-600:])))
            res.append(r)
        if verbose:
            print('kani: %d harnesses in %.0fs' % (len(wanted), dt))
    finally:
        shutil.rmtree(scratch, ignore_errors=True)
    return res
