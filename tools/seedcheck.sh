#!/bin/bash
# usage: seedcheck.sh <patch.diff> <prop>...   -- apply a seeded change to a scratch worktree of /repo's HEAD, run the quick checks there, undo.
set -u
P=$1; shift
WT=${VERIF_SCRATCH_WT:-/tmp/wt2}
# the scratch worktree is created on demand (remove it afterwards: git -C /repo worktree remove --force $WT)
[ -d "$WT" ] || git -C /repo worktree add -q --detach "$WT" || exit 9
cd $WT || exit 9
git checkout -q --detach $(git -C /repo rev-parse HEAD) && git checkout -q -- . || exit 9
git apply "$P" || { echo "PATCH DOES NOT APPLY"; exit 4; }
for prop in "$@"; do
  out=$(cd /verif && VERIF_REPO=$WT VERIF_BUILD=/tmp/vx-seed-build VERIF_EVIDENCE=/tmp/vx-seed-evidence ./check $prop quick 2>&1); rc=$?
  echo "$out" | grep -E "^VIOLATION|^UNDECIDED|^property|^KNOWN" | cut -c1-400
  echo "rc($prop)=$rc"
done
git -C $WT checkout -q -- .
