#!/bin/bash
# usage: seedcheck.sh <patch.diff> <prop>...   -- apply a seeded change to /repo, run the quick checks, undo.
set -u
P=$1; shift
cd /repo || exit 9
if ! git diff --quiet; then echo "/repo dirty"; exit 9; fi
git apply "$P" || { echo "PATCH DOES NOT APPLY"; exit 4; }
for prop in "$@"; do
  out=$(cd /verif && VERIF_EVIDENCE=/tmp/vx-seed-evidence ./check $prop quick 2>&1); rc=$?
  echo "$out" | grep -E "^VIOLATION|^UNDECIDED|^property|^KNOWN" | cut -c1-400
  echo "rc($prop)=$rc"
done
git -C /repo checkout -- .
