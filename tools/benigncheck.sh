#!/bin/bash
# Self-test (not a registered check): harmless, semantics-preserving edits must never produce exit 1 (a VIOLATION); exit 2
# (UNDECIDED: an anchor was rewritten) is tolerated and listed.  usage: benigncheck.sh <dir with *.diff>
WT=${VERIF_SCRATCH_WT:-/tmp/wt2}
D=${1:-/verif/benign}
# the scratch worktree is created on demand (remove it afterwards: git -C /repo worktree remove --force $WT)
[ -d "$WT" ] || git -C /repo worktree add -q --detach "$WT" || exit 9
cd $WT || exit 9
bad=0
for p in $D/*.diff; do
  git reset -q --hard && git checkout -q --detach $(git -C /repo rev-parse HEAD) || exit 9
  if ! git apply "$p" 2>/dev/null; then echo "$(basename $p): does not apply"; continue; fi
  line="$(basename $p):"
  for prop in C01 C02 C03 C04 C05 C06 C07 C08 C09 C10 C11 C12 C13 C14 C15 C16 C17 C18 C19 C20; do
    out=$(cd /verif && VERIF_REPO=$WT VERIF_BUILD=/tmp/vx-seed-build VERIF_EVIDENCE=/tmp/vx-seed-evidence ./check $prop quick 2>&1); rc=$?
    if [ $rc -eq 1 ]; then line="$line $prop=ALARM"; bad=1; echo "$out" | grep "^VIOLATION" | cut -c1-220 | sed "s/^/    /";
    elif [ $rc -eq 2 ]; then line="$line $prop=undecided"; echo "$out" | grep "^UNDECIDED" | head -1 | cut -c1-220 | sed "s/^/    /"; fi
  done
  echo "$line"
done
git reset -q --hard
exit $bad
