#!/bin/bash
# Self-test helper (not a registered check): every claimed property, thorough then quick, on the current /repo tree.
cd /verif
for p in $(python3 -c "import json; print(' '.join(c['property_id'] for c in json.load(open('MANIFEST.json'))['checks']))"); do
  for t in thorough quick; do
    out=$(./check $p $t 2>&1); rc=$?
    echo "$p $t rc=$rc $(echo "$out" | grep '^property' )"
  done
done
echo RUNALLDONE
