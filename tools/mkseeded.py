#!/usr/bin/env python3
"""Write /verif/seeded/<id>/ from the sub-agent deliverables + my confirmation log + a fresh check run.
usage: mkseeded.py <ID-mK> <prop> <demo cargo args...>   (reads /tmp/ported/<ID-mK>.diff, /tmp/seed/<ID>-out/<mK>/, /tmp/confirm*.log)"""
import json, os, re, subprocess, sys
name, prop = sys.argv[1], sys.argv[2]
demo_args = sys.argv[3:]
ID, m = name.split('-')
src = '/tmp/seed/%s-out/%s' % (ID, m)
dst = '/verif/seeded/%s' % name
os.makedirs(dst, exist_ok=True)
patch = open('/tmp/ported/%s.diff' % name).read()
open(dst + '/patch.diff', 'w').write(patch)
open(dst + '/demo.diff', 'w').write(open(src + '/demo.diff').read())
notes = open(src + '/notes.md').read() if os.path.exists(src + '/notes.md') else ''
open(dst + '/notes.md', 'w').write(notes)
ported = patch != open(src + '/patch.diff').read()
# confirmation log
conf = ''
import glob
for lg in sorted(glob.glob('/tmp/confirm*.log')):
    if os.path.exists(lg):
        t = open(lg).read()
        mm = re.search(r'######## %s\n(.*?)(?=######## |ALLDONE|\Z)' % re.escape(name), t, re.S)
        if mm:
            conf = mm.group(1)
def verdict(section, want):
    mm = re.search(re.escape(section) + r'.*?\n(.*?)(?=\n--- |\Z)', conf, re.S)
    return mm.group(1).strip()[:600] if mm else 'not run'
confirmed = dict(
    demo_on_clean_tree=verdict('--- demo on clean tree', 'ok'),
    demo_with_patch=verdict('--- demo with patch', 'FAILED'),
    full_suite_with_patch=verdict('--- full suite with patch', 'ok'),
)
# detection: apply to a scratch worktree of /repo's HEAD (never to /repo itself), run the check there, undo
WT = os.environ.get('VERIF_SCRATCH_WT', '/tmp/wt2')
head = subprocess.run(['git', '-C', '/repo', 'rev-parse', 'HEAD'], capture_output=True, text=True).stdout.strip()
subprocess.run(['git', '-C', WT, 'checkout', '-q', '--detach', head], check=True)
subprocess.run(['git', '-C', WT, 'checkout', '-q', '--', '.'], check=True)
subprocess.run(['git', '-C', WT, 'apply', dst + '/patch.diff'], check=True)
try:
    p = subprocess.run(['./check', prop, 'quick'], cwd='/verif', capture_output=True, text=True,
                       env=dict(os.environ, VERIF_REPO=WT, VERIF_BUILD='/tmp/vx-seed-build', VERIF_EVIDENCE='/tmp/vx-seed-evidence'))
finally:
    subprocess.run(['git', '-C', WT, 'checkout', '-q', '--', '.'], check=True)
lines = [l for l in p.stdout.split('\n') if l.startswith(('VIOLATION', 'UNDECIDED'))]
det = dict(check='./check %s quick' % prop, exit_code=p.returncode,
           result=('detected' if p.returncode == 1 else 'undecided' if p.returncode == 2 else 'missed'),
           lines=[re.sub(r'replay=\S+ ', '', l)[:300] for l in lines])
files = sorted(set(re.findall(r'^\+\+\+ b/(\S+)', patch, re.M)))
meta = dict(id=name, property=prop, source='independent sub-agent given only the property text and its own worktree',
            files=files, ported_to_current_head=ported,
            needs=(re.search(r'(?is)(needs|manifest|trigger)[^\n]*\n(.*?)(\n#|\n\n\n|\Z)', notes).group(0)[:900] if re.search(r'(?i)(needs|manifest|trigger)', notes) else ''),
            what_i_ran=dict(confirm='tools/confirm_seed.sh patch.diff demo.diff ' + ' '.join(demo_args) + '  (scratch worktree /tmp/wt at /repo HEAD)', **confirmed),
            detection=det)
first = json.load(open('/verif/seeded/first_results.json')).get(name)
if first and first != det['result']:
    meta['first_verdict_before_strengthening'] = first
json.dump(meta, open(dst + '/meta.json', 'w'), indent=1)
print(name, det['result'], det['lines'][:1])
