#!/usr/bin/env python3
"""Mechanical mutation campaign against one unit: mutate lines inside the functions under contract in a scratch
worktree (VERIF_REPO=/tmp/wt2), run the unit, report detected / undecided / survived.
usage: mutate.py <unit> [max_mutants] [seed] [file:from-to ...]   (explicit line ranges, e.g. for generated sources whose text lives in remoc_macro)"""
import os, random, re, subprocess, sys
sys.path.insert(0, '/verif/lib')
os.environ['VERIF_REPO'] = '/tmp/wt2'
import vx
unit = sys.argv[1]; N = int(sys.argv[2]) if len(sys.argv) > 2 else 30; seed = int(sys.argv[3]) if len(sys.argv) > 3 else 1
WT = '/tmp/wt2'
subprocess.run(['git', '-C', WT, 'checkout', '-q', '--', '.'])
u = vx.Unit('/verif/units/%s.vx' % unit); u.assemble()
OPS = [(r' <= ', ' < '), (r' < ', ' <= '), (r' >= ', ' > '), (r' > ', ' >= '), (r' == ', ' != '), (r' != ', ' == '),
       (r' \+ ', ' - '), (r' - ', ' + '), (r'\btrue\b', 'false'), (r'\bfalse\b', 'true'), (r' && ', ' || '), (r' \|\| ', ' && '),
       (r'\bfirst\b', 'last'), (r'\blast\b', 'first'), (r'\+= ', '-= '), (r'-= ', '+= '), (r'\.min\(', '.max('), (r'\.max\(', '.min('),
       (r'\b1\b', '2'), (r'\b4\b', '3'), (r'\b0\b', '1'), (r'!self\.', 'self.'), (r'\bSome\(', 'Some(('), ]
cands = []
ranges = [a for a in sys.argv[4:]]
for r in ranges:
    file, span = r.split(':'); a0, b0 = [int(x) for x in span.split('-')]
    lines = open(os.path.join(WT, file)).read().split('\n')
    for ln in range(a0 - 1, min(len(lines), b0)):
        t = lines[ln]
        if t.strip().startswith('//') or 'tracing::' in t or 'panic!' in t or 'format!' in t: continue
        for rx, rp in OPS:
            if rp == 'Some((': continue
            for m in re.finditer(rx, t):
                cands.append((file, ln, m.start(), m.end(), rp, r))
for f in ([] if ranges else u.fns):
    if not f.name or f.name.split(' ')[0] in ('struct', 'enum', 'const'): continue
    path = os.path.join(WT, f.file); lines = open(path).read().split('\n')
    n = f.orig.count('\n') + 1
    for ln in range(f.src_line - 1, min(len(lines), f.src_line - 1 + n)):
        t = lines[ln]
        if t.strip().startswith('//') or 'tracing::' in t or 'panic!' in t or 'format!' in t: continue
        for rx, rp in OPS:
            if rp == 'Some((': continue
            for m in re.finditer(rx, t):
                cands.append((f.file, ln, m.start(), m.end(), rp, f.name))
random.Random(seed).shuffle(cands)
res = {'detected': 0, 'undecided': 0, 'survived': 0}
surv = []
und = []
for (file, ln, a, b, rp, fn) in cands[:N]:
    path = os.path.join(WT, file); src = open(path).read(); lines = src.split('\n')
    old = lines[ln]; lines[ln] = old[:a] + rp + old[b:]
    open(path, 'w').write('\n'.join(lines))
    p = subprocess.run(['/verif/check', 'unit:' + unit], capture_output=True, text=True, env=dict(os.environ, VERIF_REPO=WT, VERIF_BUILD='/tmp/vx-mut-build'))
    out = p.stdout
    if 'FAILED' in out: k = 'detected'
    elif 'UNDECIDED' in out:
        k = 'undecided'; und.append((fn, old.strip()[:70], lines[ln].strip()[:70], re.search(r'UNDECIDED (.*)', out).group(1)[:110]))
    else: k = 'survived'; surv.append((fn, file, ln + 1, old.strip(), lines[ln].strip()))
    res[k] += 1
    open(path, 'w').write(src)
print(unit, res)
for x in und: print('  UNDECIDED %s | %s -> %s | %s' % x)
for s in surv: print('  SURVIVED %s %s:%d\n      - %s\n      + %s' % s)
