#!/usr/bin/env python3
"""Markdown table: unit -> source files -> functions whose real text is verified (from the //@ fn directives)."""
import glob, os, re
HERE = os.path.dirname(os.path.dirname(os.path.abspath(__file__)))
print('| unit | source | functions / blocks whose real text is verified | obligations |')
print('|---|---|---|---|')
def key(p):
    m = re.search(r'U(\d+)', p)
    return (int(m.group(1)), p)
for p in sorted(glob.glob(HERE + '/units/*.vx'), key=key):
    t = open(p).read()
    name = re.search(r'//@ unit (\S+)', t).group(1)
    files = [re.search(r'//@ file (\S+)', t).group(1)]
    fns = []
    for m in re.finditer(r'^//@ fn (\S+)(.*)$', t, re.M):
        opts = m.group(2)
        f = re.search(r'file=(\S+)', opts)
        if f and f.group(1) not in files:
            files.append(f.group(1))
        i = re.search(r'\bid=(\S+)', opts)
        n = i.group(1) if i else m.group(1)
        if 'block=' in opts:
            n += ' (block)'
        fns.append(n)
    nobl = len(re.findall(r'^\s*//# [\w\-\.\{\}]+\s*:', t, re.M))
    print('| %s | %s | %s | %d labelled + 1 safety per fn |' % (name, ', '.join(f.replace('remoc/src/', '') for f in files), ', '.join('`%s`' % f for f in fns), nobl))
