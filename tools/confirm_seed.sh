#!/bin/bash
# usage: confirm_seed.sh <patch.diff> <demo.diff> <cargo test args for the demo...>
# In the scratch worktree /tmp/wt (at /repo HEAD): demo must FAIL with patch, PASS without; full suite must pass with patch.
set -u
P=$1; D=$2; shift 2
WT=/tmp/wt
export CARGO_TARGET_DIR=/tmp/wt-target CARGO_NET_OFFLINE=true
cd $WT || exit 9
git checkout -q -- . && git clean -fdq
git checkout -q --detach $(git -C /repo rev-parse HEAD)
git apply "$D" || { echo "DEMO DOES NOT APPLY"; exit 3; }
echo "--- demo on clean tree (expect pass)"
timeout 1500 cargo test -p remoc --offline "$@" 2>&1 | grep -E "^test result|^test .*(FAILED|ok)$|error(\[|:)" | head -8
git apply "$P" || { echo "PATCH DOES NOT APPLY"; git checkout -q -- .; git clean -fdq; exit 4; }
echo "--- demo with patch (expect FAIL)"
timeout 1500 cargo test -p remoc --offline "$@" 2>&1 | grep -E "^test result|^test .*(FAILED|ok)$|error(\[|:)" | head -8
git checkout -q -- . && git clean -fdq
git apply "$P"
echo "--- full suite with patch (expect all pass)"
timeout 3000 cargo test --workspace --no-fail-fast --offline 2>&1 | grep -E "^test result: .* [1-9][0-9]* passed|FAILED|failed" | head -8
git checkout -q -- . && git clean -fdq
