#!/usr/bin/env python3
"""Markdown table of /verif/seeded/*/meta.json (which check catches which seeded change)."""
import glob, json, os, re
rows = []
for f in sorted(glob.glob('/verif/seeded/*/meta.json')):
    m = json.load(open(f))
    det = m['detection']
    line = det['lines'][0] if det['lines'] else ''
    ob = re.search(r'obligation=(\S+)', line)
    why = ob.group(1) if ob else (re.sub(r'^UNDECIDED property=\S+ reason=', '', line)[:110] if line else '')
    notes = open(os.path.dirname(f) + '/notes.md').read() if os.path.exists(os.path.dirname(f) + '/notes.md') else ''
    title = next((l.strip('# ').strip() for l in notes.split('\n') if l.strip()), '')[:90]
    rows.append('| %s | %s | %s | %s | %s |' % (m['id'], ', '.join(os.path.basename(x) for x in m['files']), title.replace('|', '/'), det['result'] + (' (first: %s)' % m['first_verdict_before_strengthening'] if m.get('first_verdict_before_strengthening') else ''), why.replace('|', '/')))
print('| seeded change | file | what it is | quick check | obligation that fails / reason |')
print('|---|---|---|---|---|')
print('\n'.join(rows))
res = [json.load(open(f))['detection']['result'] for f in glob.glob('/verif/seeded/*/meta.json')]
print('\nTotals: %d seeded changes: %d detected (VIOLATION), %d undecided (exit 2), %d missed (exit 0).' % (len(res), res.count('detected'), res.count('undecided'), res.count('missed')))
