#!/usr/bin/env python3
"""Refresh the generated regions of DESIGN.md (units table, seeded-change table, not-decided list)."""
import json, os, re, subprocess
HERE = os.path.dirname(os.path.dirname(os.path.abspath(__file__)))
p = os.path.join(HERE, 'DESIGN.md')
s = open(p).read()
def region(name, text):
    global s
    a, b = '<!-- BEGIN %s -->' % name, '<!-- END %s -->' % name
    i, j = s.index(a) + len(a), s.index(b)
    s = s[:i] + '\n' + text.rstrip('\n') + '\n' + s[j:]
region('units-table', subprocess.run([HERE + '/tools/units_table.py'], capture_output=True, text=True).stdout)
region('seeded-table', subprocess.run([HERE + '/tools/seeded_table.py'], capture_output=True, text=True).stdout)
nd = json.load(open(HERE + '/units/not_decided.json'))
region('not-decided', '\n'.join('* **%s** — %s' % (k, v) for k, v in sorted(nd.items())))
open(p, 'w').write(s)
print('DESIGN.md regions refreshed')
