#!/usr/bin/env python3
"""Self-test of the machinery (not a registered check): every seeded change under /verif/seeded is applied to a scratch
copy of /repo and the quick check of its property must give the verdict recorded in meta.json; the unchanged copy must pass.
usage: selftest.py [--update] [id-prefix]   (--update rewrites meta.json detection with the verdict of the current checks)"""
import glob, json, os, shutil, subprocess, sys, tempfile
args = [a for a in sys.argv[1:] if a != '--update']
update = '--update' in sys.argv
pref = args[0] if args else ''
scratch = tempfile.mkdtemp(prefix='vx-selftest-', dir='/tmp')
bad = 0
try:
    subprocess.run(['rsync', '-a', '--exclude', 'target', '--exclude', '.git', '/repo/', scratch + '/'], check=True)
    env = dict(os.environ, VERIF_REPO=scratch, VERIF_BUILD=scratch + '/.vxbuild', VERIF_EVIDENCE=scratch + '/.vxevidence')
    for d in sorted(glob.glob('/verif/seeded/%s*/' % pref)):
        if not os.path.exists(d + 'meta.json'):
            continue
        m = json.load(open(d + 'meta.json'))
        r = subprocess.run(['patch', '-p1', '-s', '-i', d + 'patch.diff'], cwd=scratch, capture_output=True, text=True)
        if r.returncode != 0:
            print('%-8s patch does not apply: %s' % (m['id'], r.stdout[:100])); bad += 1; continue
        p = subprocess.run(['/verif/check', m['property'], 'quick'], env=env, capture_output=True, text=True)
        got = {0: 'missed', 1: 'detected', 2: 'undecided'}.get(p.returncode, '?')
        if update and got != m['detection']['result']:
            import re
            first = m.get('first_verdict_before_strengthening') or m['detection']['result']
            lines = [l for l in p.stdout.split('\n') if l.startswith(('VIOLATION', 'UNDECIDED'))]
            m['detection'] = dict(check='./check %s quick' % m['property'], exit_code=p.returncode, result=got,
                                  lines=[re.sub(r'replay=\S+ ', '', l)[:300] for l in lines])
            if first != got:
                m['first_verdict_before_strengthening'] = first
            json.dump(m, open(d + 'meta.json', 'w'), indent=1)
        ok = got == m['detection']['result']
        print('%-8s %-6s expected=%-9s got=%-9s %s' % (m['id'], m['property'], m['detection']['result'], got, 'ok' if ok else 'MISMATCH'))
        bad += 0 if ok else 1
        subprocess.run(['patch', '-p1', '-R', '-s', '-i', d + 'patch.diff'], cwd=scratch, check=True)
finally:
    shutil.rmtree(scratch, ignore_errors=True)
print('selftest: %d mismatches' % bad)
sys.exit(1 if bad else 0)
