#!/bin/bash
# Self-test (not a registered check): every repaired defect recorded as "fixed:" in known_findings.txt must be reported again when
# its repair is taken back.  For each line the fix commit is reverse-applied to a scratch worktree of /repo's HEAD and the quick
# check of the property is run there; expected exit 1 (VIOLATION) -- exit 2 (UNDECIDED, e.g. an anchor introduced by the fix is
# gone) is listed as such, exit 0 is a MISS.
# usage: fixcheck.sh [commit-prefix]
WT=${VERIF_SCRATCH_WT:-/tmp/wt2}
# the scratch worktree is created on demand (remove it afterwards: git -C /repo worktree remove --force $WT)
[ -d "$WT" ] || git -C /repo worktree add -q --detach "$WT" || exit 9
cd $WT || exit 9
miss=0
grep "^fixed:" /verif/known_findings.txt | awk '{print $2, $3}' | sed 's/property=//' | while read prop sha; do
  case "$sha" in ${1:-}*) ;; *) continue;; esac
  git reset -q --hard && git checkout -q --detach $(git -C /repo rev-parse HEAD) || exit 9
  if ! git -C /repo diff $sha $sha~1 -- remoc remoc_macro | git apply 2>/dev/null; then
    if ! git -C /repo diff $sha $sha~1 -- remoc remoc_macro | git apply --3way 2>/dev/null; then
      git reset -q --hard; echo "$prop $sha reverse patch does not apply"; continue
    fi
    git reset -q
    if grep -rl '^<<<<<<<' remoc/src remoc_macro/src >/dev/null 2>&1; then git reset -q --hard; echo "$prop $sha reverse patch conflicts"; continue; fi
  fi
  out=$(cd /verif && VERIF_REPO=$WT VERIF_BUILD=/tmp/vx-seed-build VERIF_EVIDENCE=/tmp/vx-seed-evidence ./check $prop quick 2>&1); rc=$?
  v=$(echo "$out" | grep -E "^VIOLATION|^UNDECIDED" | head -1 | sed 's/replay=[^ ]* //' | cut -c1-200)
  case $rc in 1) r=detected;; 2) r=undecided;; 0) r=MISSED;; *) r="rc=$rc";; esac
  echo "$prop $sha $r $v"
  git reset -q --hard
done
