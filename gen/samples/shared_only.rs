// Input for the repository's own remoc_macro generator (lib/rtcgen.py), NOT a model of any code: a remote trait whose
// methods all take `&self`, the only kind of trait for which the generator emits the ServerRef and ServerShared
// flavours (besides Server, ServerRefMut and ServerSharedMut).  What is verified is the generator's OUTPUT for this trait.

#[remoc::rtc::remote]
pub trait Reader {
    async fn get(&self, key: u32) -> Result<u32, remoc::rtc::CallError>;

    #[no_cancel]
    async fn get_guarded(&self, key: u32) -> Result<u32, remoc::rtc::CallError>;
}
