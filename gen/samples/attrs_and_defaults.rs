// Input for the repository's own remoc_macro generator (lib/rtcgen.py), NOT a model of any code: a remote trait that
// exercises generator paths the traits in remoc/tests/rtc do not -- `#[no_cancel]` followed / preceded by other
// attributes, and methods with default bodies.  What is verified is the generator's OUTPUT for this trait.

#[remoc::rtc::remote]
pub trait Sample {
    /// Documented before the marker.
    #[no_cancel]
    /// Documented after the marker.
    #[doc(hidden)]
    async fn guarded(&mut self, x: u32) -> Result<u32, remoc::rtc::CallError>;

    #[doc(hidden)]
    #[no_cancel]
    async fn guarded_last(&mut self) -> Result<u32, remoc::rtc::CallError>;

    /// A cancellable method with a default body; the server may override it.
    async fn with_default(&mut self, x: u32) -> Result<u32, remoc::rtc::CallError> {
        Ok(x)
    }

    /// A non-cancellable method with a default body.
    #[no_cancel]
    async fn guarded_default(&mut self, x: u32) -> Result<u32, remoc::rtc::CallError> {
        Ok(x + 1)
    }

    async fn plain(&self) -> Result<u32, remoc::rtc::CallError>;
}
